"""Parameter dump, test points and reference values of the shipped GKLS functions (GKLSSpec.tla records)."""
import json
import os
import random as _r

import numpy as np

from .common import VERIF, q, use_repo

use_repo()
from iOpt.trial import FunctionValue, Point  # noqa: E402

GOLDEN = os.path.join(VERIF, "golden", "gkls.json")


def qv(v):
    return [q(float(t)) for t in v]


RAISED = []


def evalf(p, y):
    fv = FunctionValue()
    try:
        v = float(p.Calculate(Point(np.array(y, dtype=np.double), []), fv).value)
    except Exception as ex:      # noqa: BLE001  (an evaluation inside the box must not raise: clause EvaluationRaises)
        RAISED.append(type(ex).__name__)
        return 0.0
    if v != v or v in (float("inf"), float("-inf")):
        RAISED.append("NonFinite")      # inf / nan where a value is promised: judged like a raising evaluation
        return 0.0
    return v


def golden_points(dim, nf, k=50):
    rng = _r.Random("gkls-golden/%d/%d" % (dim, nf))
    return [[rng.uniform(-1, 1) for _ in range(dim)] for _ in range(k)]


def parameters(p):
    m = p.function.GKLS_minima
    return {"M": [qv(row) for row in m.local_min], "rho": qv(m.rho), "f": qv(m.f), "peak": qv(m.peak)}


def build_record(dim, nf, rng, golden=None, npts=24, problem=None, stream=False, light=False):
    from iOpt.problems.GKLS import GKLS
    p = problem if problem is not None else GKLS(dim, nf)
    del RAISED[:]
    prm = parameters(p)
    m = p.function.GKLS_minima
    M = [[float(t) for t in row] for row in m.local_min]
    rho = [float(t) for t in m.rho]
    T = M[0]
    inbox = lambda y: all(-1.0 <= t <= 1.0 for t in y)     # noqa: E731
    pts = []
    for i in range(10):
        pts.append(M[i])
    for i in range(1, 10 if not light else 0):
        dirs = []
        k = (i + nf) % dim
        for sg in (1.0, -1.0):
            e = [0.0] * dim
            e[k] = sg
            dirs.append(e)
        d = [a - b for a, b in zip(T, M[i])]
        nd = sum(t * t for t in d) ** 0.5
        dirs.append([t / nd for t in d])
        dirs.append([-t / nd for t in d])
        g = [rng.gauss(0, 1) for _ in range(dim)]
        ng = sum(t * t for t in g) ** 0.5
        dirs.append([t / ng for t in g])
        for e in dirs:
            for t in (0.25, 0.5, 0.75, 0.97, 1.05):
                y = [a + t * rho[i] * b for a, b in zip(M[i], e)]
                if inbox(y):
                    pts.append(y)
    for _ in range(npts if not light else 2):
        pts.append([rng.uniform(-1, 1) for _ in range(dim)])
    pts.append([1.0] * dim), pts.append([-1.0] * dim)
    pairs = []
    for i in range(1, 10 if not light else 0):
        for _ in range(3):
            g = [rng.gauss(0, 1) for _ in range(dim)]
            ng = sum(t * t for t in g) ** 0.5
            e = [t / ng for t in g]
            yin = [a + (1 - 2e-9) * rho[i] * b for a, b in zip(M[i], e)]
            yout = [a + (1 + 2e-9) * rho[i] * b for a, b in zip(M[i], e)]
            if inbox(yin) and inbox(yout):
                pairs.append([qv(yin), q(evalf(p, yin)), qv(yout), q(evalf(p, yout))])
    rec = {"dim": dim, "nf": nf, "dist": q(float(p.global_dist)), "radius": q(float(p.global_radius)),
           "opt": qv(p.knownOptimum[0].point.floatVariables), "optv": q(float(p.knownOptimum[0].functionValues[0].value)),
           "pts": [[qv(y), q(evalf(p, y))] for y in pts], "pairs": pairs,
           "gvalues": [q(evalf(p, y)) for y in golden_points(dim, nf)]}
    rec.update(prm)
    rec["raised"] = bool(RAISED)
    rec["rng"] = bool(stream)
    if golden is not None:
        rec["golden"] = golden["%d/%d" % (dim, nf)]
    return rec


def load_golden():
    with open(GOLDEN) as f:
        return json.load(f)


def write_golden():
    """records the reference from the tree under test - run once on the pinned tree (tools/gen_golden.py)"""
    from iOpt.problems.GKLS import GKLS
    out = {}
    for dim in (2, 3, 4, 5):
        for nf in range(1, 101):
            p = GKLS(dim, nf)
            prm = parameters(p)
            out["%d/%d" % (dim, nf)] = {"M": prm["M"], "rho": prm["rho"], "f": prm["f"],
                                         "values": [q(evalf(p, y)) for y in golden_points(dim, nf)]}
    os.makedirs(os.path.dirname(GOLDEN), exist_ok=True)
    with open(GOLDEN, "w") as f:
        json.dump(out, f, separators=(",", ":"))
    return len(out)
