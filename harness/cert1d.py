"""Untrusted certificate search for one-dimensional benchmark functions (Hill, Shekel).  It proposes cells and samples the
real Problem.Calculate; spec/Cert1D.tla re-derives the derivative bounds from the coefficient tables and checks every
clause in exact arithmetic.  A bug here can only lose coverage ("undecided"), never make TLC accept a wrong table."""
import math

import numpy as np

from .common import q, use_repo

use_repo()
from iOpt.trial import FunctionValue, Point  # noqa: E402

PI_HI = 3.1415927
EPSF = 1e-11
SAFE = 1.0 + 1e-7          # the search decides with a small margin so that the exact check agrees


def coef_of(fam, fn):
    if fam == "Rastrigin":
        return {}
    if fam == "Hill":
        import iOpt.problems.Hill.hill_generation as g
        return {"A": [float(t) for t in g.aHill[fn]], "B": [float(t) for t in g.bHill[fn]]}
    import iOpt.problems.Shekel.shekel_generation as g
    return {"K": [float(t) for t in g.kShekel[fn]], "A": [float(t) for t in g.aShekel[fn]], "C": [float(t) for t in g.cShekel[fn]]}


def tables_of(fam, fn):
    if fam == "Rastrigin":
        return ([0.0, 0.0], None, None)
    if fam == "Hill":
        import iOpt.problems.Hill.hill_generation as g
        return ([float(t) for t in g.minHill[fn]], [float(t) for t in g.maxHill[fn]], float(g.lConstantHill[fn]))
    import iOpt.problems.Shekel.shekel_generation as g
    # (the Shekel module publishes its maximum and Lipschitz tables under the names maxHill / lConstantHill)
    return ([float(t) for t in g.minShekel[fn]], [float(t) for t in g.maxHill[fn]], float(g.lConstantHill[fn]))


def bounds(fam, coef, a=0.0, b=1.0):
    L = []
    for n in (1, 2, 3, 4):
        if fam == "Rastrigin":
            L.append(((2 * max(abs(a), abs(b)) if n == 1 else (2.0 if n == 2 else 0.0)) + 10 * (2 * PI_HI) ** n) * SAFE)
        elif fam == "Hill":
            L.append(sum((2 * PI_HI * i) ** n * (abs(a) + abs(b)) for i, (a, b) in enumerate(zip(coef["A"], coef["B"]))) * SAFE)
        else:
            L.append(sum(math.factorial(n) * math.sqrt(k) ** n / (c * math.sqrt(c) ** n) for k, c in zip(coef["K"], coef["C"])) * SAFE)
    return L


class Sampler:
    def __init__(self, problem, sign):
        self.p = problem
        self.s = sign
        self.n = 0

    def __call__(self, x):
        self.n += 1
        fv = FunctionValue()
        pt = Point(np.array([float(x)], dtype=np.double), [])
        return self.s * float(self.p.Calculate(pt, fv).value)


class Ctx1D:
    def __init__(self, fam, L, h):
        self.fam, self.L, self.h = fam, L, h
        self.e1 = (L[2] * h * h / 6 + EPSF / h) * SAFE
        self.e2 = (L[3] * h * h / 12 + 4 * EPSF / (h * h)) * SAFE

    def cell(self, g, lo, hi):
        m = (lo + hi) / 2
        return (lo, hi, g(m - self.h), g(m), g(m + self.h))

    def d1(self, c):
        return (c[4] - c[2]) / (2 * self.h)

    def d2(self, c):
        return (c[4] - 2 * c[3] + c[2]) / (self.h * self.h)

    def lowf(self, c):
        w = c[1] - c[0]
        return c[3] - EPSF - (abs(self.d1(c)) + self.e1) * w / 2 * SAFE - self.L[1] * w * w / 8 * SAFE

    def upd(self, c):
        w = c[1] - c[0]
        return (abs(self.d1(c)) + self.e1 + (abs(self.d2(c)) + self.e2) * w / 2 + self.L[2] * w * w / 8) * SAFE

    def lowdd(self, c):
        w = c[1] - c[0]
        return self.d2(c) - (self.e2 + self.L[2] * w / 2) * SAFE

    def signd(self, c):
        w = c[1] - c[0]
        slack = (self.e1 + self.L[1] * w / 2) * SAFE
        d = self.d1(c)
        return 1 if d > slack else (-1 if d < -slack else 0)

    def tile(self, g, lo, hi, ok, wmin, maxcells=6000):
        """adaptive bisection of [lo, hi] until ok(cell) holds; returns (cells, all_ok)"""
        if not lo < hi:
            return [], True
        out, good = [], True
        stack = [(lo, hi)]
        while stack:
            a, b = stack.pop()
            c = self.cell(g, a, b)
            if ok(c):
                out.append(c)
            elif b - a > wmin and len(out) + len(stack) < maxcells:
                m = (a + b) / 2
                stack.append((m, b))
                stack.append((a, m))
            else:
                out.append(c)
                good = False
        return out, good


def enc(cells):
    return [[q(c[0]), q(c[1]), q(c[2]), q(c[3]), q(c[4])] for c in cells]


def min_certificate(cx, g, a, b, x, v, tv, delta, tvlow=None):
    tvlow = tv if tvlow is None else tvlow
    h = cx.h
    fdecl = g(x)
    cert = {"v": q(v), "x": q(x), "fdecl": q(fdecl), "d": [q(g(x - h)), q(g(x + h))], "wit": [], "refute": []}
    # U = [xl, xr]
    sides_ok = []

    def side(sgn):
        end = a if sgn < 0 else b
        for fr in (0.03, 0.08, 0.2, 0.4, 0.7, 0.9, 0.97):      # the smallest neighbourhood U whose end slopes can be certified
            p = x + sgn * fr * delta
            if (sgn < 0 and p <= a) or (sgn > 0 and p >= b):
                return end, []
            pair = (g(p - h), g(p + h))
            d = (pair[1] - pair[0]) / (2 * h)
            if (sgn < 0 and d + cx.e1 < 0) or (sgn > 0 and d - cx.e1 > 0):
                return p, [q(pair[0]), q(pair[1])]
        sides_ok.append(False)
        p = x + sgn * 0.9 * delta
        return p, [q(g(p - h)), q(g(p + h))]
    xl, dl = side(-1)
    xr, dr = side(+1)
    wmin = delta / 64
    vlo, vhi, conv = xl, xr, None
    mode = "convex"
    fend = fdecl
    if x + delta >= b or x - delta <= a:
        # extremum at an end of the domain: certify that g is strictly monotone towards that end on V
        right = x + delta >= b
        for mult in (256, 64, 16, 4, 1.5):
            lo, hi = (max(a, b - mult * delta), b) if right else (a, min(b, a + mult * delta))
            lo, hi = min(lo, xl if not right else lo), max(hi, xr if right else hi)
            want = -1 if right else 1
            cells, good = cx.tile(g, lo, hi, lambda c: cx.signd(c) == want, wmin, maxcells=400)
            if good and ((right and lo <= x - 0 and lo <= xl) or (not right and hi >= xr)):
                vlo, vhi, conv, mode = lo, hi, cells, "monotone"
                if right:
                    xr, dr = b, []
                else:
                    xl, dl = a, []
                fend = g(b if right else a)
                break
    if conv is None:
        wu = xr - xl
        for mult in (200, 50, 12, 3, 0.5, 0.0):
            lo, hi = max(a, xl - mult * wu), min(b, xr + mult * wu)
            cells, good = cx.tile(g, lo, hi, lambda c: cx.lowdd(c) > 0, wmin, maxcells=400)
            if good:
                vlo, vhi, conv = lo, hi, cells
                break
    if conv is None:
        conv, _ = cx.tile(g, xl, xr, lambda c: cx.lowdd(c) > 0, wmin)
    above = fdecl + EPSF
    cl, gl = cx.tile(g, a, vlo, lambda c: cx.lowf(c) > above + 1e-12, wmin)
    cr, gr = cx.tile(g, vhi, b, lambda c: cx.lowf(c) > above + 1e-12, wmin)
    cert.update({"mode": mode, "fend": q(fend), "xl": q(xl), "xr": q(xr), "dl": dl, "dr": dr, "vlo": q(vlo), "vhi": q(vhi), "conv": enc(conv),
                 "coverL": enc(cl), "coverR": enc(cr)})
    # an observed value below the declared minimum (witness for a refutation of the value)
    best = min([(c[3], (c[0] + c[1]) / 2) for c in cl + cr + conv] + [(fdecl, x)])
    if best[0] + EPSF < v - tvlow:
        cert["wit"] = [q(best[1]), q(best[0])]
    # refutation of the location: one certified sign of f' on the whole delta-neighbourhood
    located = gl and gr and conv is not None and (mode == "monotone" or not sides_ok)
    if not located:
        lo, hi = max(a, x - delta * (1 + 1e-9)), min(b, x + delta * (1 + 1e-9))
        cells, _ = cx.tile(g, lo, hi, lambda c: cx.signd(c) != 0, delta / 256, maxcells=600)
        if cells and all(cx.signd(c) == cx.signd(cells[0]) != 0 for c in cells):
            cert["refute"] = enc(sorted(cells))
    return cert


def lip_certificate(cx, f, a, b, Ldecl, rel):
    h = cx.h
    xs = np.linspace(a, b, 4001)
    vals = [f(float(t)) for t in xs]
    dq = [abs(vals[i + 1] - vals[i - 1]) / (xs[i + 1] - xs[i - 1]) for i in range(1, len(xs) - 1)]
    i0 = int(np.argmax(dq)) + 1
    # local refinement of the witness
    lo, hi = float(xs[i0 - 1]), float(xs[i0 + 1])
    best = None
    for t in np.linspace(lo, hi, 201):
        pair = (f(float(t) - h), f(float(t) + h))
        d = abs(pair[1] - pair[0]) / (2 * h)
        if best is None or d > best[0]:
            best = (d, float(t), pair)
    target = Ldecl * (1 + rel) * (1 - 1e-7)
    if best[0] < Ldecl * (1 - rel):
        target = Ldecl * (1 - rel) * (1 - 1e-7)      # the table looks too large: aim at the refutation instead
    cells, _ = cx.tile(f, a, b, lambda c: cx.upd(c) <= target, (b - a) * 2.0 ** -22, maxcells=8000)
    return {"L": q(Ldecl), "xw": q(best[1]), "wit": [q(best[2][0]), q(best[2][1])], "cells": enc(sorted(cells))}


def build_record(tid, fam, fn, tv, delta_rel, rel, parts=("min", "max", "lip"), tables=None, tvlow_rel=None, declared=False):
    """tables: optional override (min row, max row, L) - used by the self-test to corrupt a table entry"""
    from .problems_drv import families
    prob = families()[fam][0](fn)
    # the object is used among siblings, as in a benchmark loop that builds the problem set first: the table row must
    # describe what THIS object computes whatever other members exist
    _siblings = [families()[fam][0]((fn + 1) % 1000), families()[fam][0]((fn + 501) % 1000)] if fam != "Rastrigin" else []
    a, b = float(prob.lowerBoundOfFloatVariables[0]), float(prob.upperBoundOfFloatVariables[0])
    coef = coef_of(fam, fn)
    tmin, tmax, tl = tables or tables_of(fam, fn)
    if declared:       # C10: the optimum the problem object declares (knownOptimum), not the table row
        ko = prob.knownOptimum[0]
        tmin = [float(ko.functionValues[0].value), float(ko.point.floatVariables[0])]
    tvlow = tv if tvlow_rel is None else tvlow_rel * max(1.0, abs(tmin[0]))
    L = bounds(fam, coef, a, b)
    h = 2.0 ** -13 if fam == "Shekel" else 2.0 ** -16
    cx = Ctx1D(fam, L, h)
    delta = delta_rel * (b - a)
    rec = {"tid": tid, "fam": fam, "fn": int(fn), "a": q(a), "b": q(b), "h": q(h), "epsf": q(EPSF),
           "coef": {k: [q(t) for t in v] for k, v in coef.items()}, "tv": q(tv), "tvlow": q(tvlow), "delta": q(delta), "rel": q(rel)}
    f = Sampler(prob, +1)
    if "min" in parts:
        rec["min"] = min_certificate(cx, f, a, b, tmin[1], tmin[0], tv, delta, tvlow)
    if "max" in parts:
        g = Sampler(prob, -1)
        rec["max"] = min_certificate(cx, g, a, b, tmax[1], -tmax[0], tv, delta)
    if "lip" in parts:
        rec["lip"] = lip_certificate(cx, f, a, b, tl, rel)
    rec["_evals"] = f.n
    return rec
