"""C03, C04, C05, C06, C20: properties of single-solver runs decided by AGPTrace.tla on recorded runs
(+ the design-level exhaustive runs of AGP.tla shared with C02)."""
from ..common import finish
from ..solver_tv import other_clause_failures, report_failures, validate_runs
from .. import scen

EXPL = {
    "C03": "parameter grid eps x itersLimit (incl. 1, 2, eps >= 1) x entry modes (fresh Solve, repeated Solve, DoGlobalIteration "
           "up to / past the budget before Solve): TLC recomputes the interval lengths from the history and requires the run to "
           "end at the first iteration whose subdivided interval is shorter than eps or at the budget - never earlier, never "
           "later - the trial count to equal the number of objective calls, and the reported accuracy to be the recomputed minimum",
    "C04": "after every public call and inside every listener callback: the reported best trial is one of the evaluated points, "
           "its value is the logged objective value at that point (also re-evaluated), and no logged value is smaller; objectives "
           "with many equal values, batches of several iterations",
    "C05": "every objective call of the global phase and of the Nelder-Mead refinement is checked exactly against the box; the "
           "returned point is in the box, its value is the objective re-evaluated at it and is not above the best global trial; "
           "objectives whose unconstrained minimum lies outside / on faces of the box",
    "C06": "a full public snapshot of the search information after every DoGlobalIteration call, inside every OnEndIteration "
           "callback and after Solve is compared item by item with the specification's record: order, count, links, interval "
           "lengths, stored point = evolvent image of its coordinate (exact digits), stored value = logged objective value",
    "C20": "evolventDensity 2..12 x dimension 2..5: every point passed to the objective must be a cell centre of the density-m "
           "grid of the box (odd numerator over 2^(m+1)), which rejects both a coarser and a finer effective density",
}


def build(ctx, pid):
    q = ctx.quick
    if pid == "C03":
        return scen.stop_grid_runs(ctx) + scen.general_runs(ctx, 15 if q else 300, batches=True, full_snap=False)
    if pid == "C04":
        return scen.equal_value_runs(ctx, 30 if q else 600) + scen.tiny_improvement_runs(ctx, 8 if q else 120) + scen.general_runs(ctx, 20 if q else 400, batches=True, refine=True) \
            + scen.interleaved_runs(ctx, 6 if q else 100, full_snap=False)
    if pid == "C05":
        return scen.box_runs(ctx, 60 if q else 1200) + scen.general_runs(ctx, 15 if q else 300, batches=True, refine=True, full_snap=False) \
            + scen.fault_runs(ctx, 6 if q else 80, phase="local", full_snap=False, types=[ValueError, TypeError, RuntimeError, ZeroDivisionError])
    if pid == "C06":
        return scen.general_runs(ctx, 50 if q else 800, batches=True, refine=True) + scen.equal_value_runs(ctx, 10 if q else 100) \
            + scen.interleaved_runs(ctx, 5 if q else 80) + scen.fault_runs(ctx, 4 if q else 60)
    if pid == "C20":
        return scen.density_runs(ctx)
    raise KeyError(pid)


def run(ctx):
    pid = ctx.pid
    runs = build(ctx, pid)
    failures, stats = validate_runs(ctx, runs)
    report_failures(ctx, pid, failures)
    mc = scen.agp_design_mc(ctx, pid)
    if pid in ("C05", "C20"):
        # design level for the geometric half: every evolvent image is the centre of a cell of the density-m grid, strictly inside
        # the cube (EvolventAuto for all densities, EvolventMC outright on small grids); the affine map to the box is checked on the traces
        from .evolvent import model_check
        mc = model_check(ctx, pid)
    if pid == "C03":
        # unbounded itersLimit / batch sizes: the counter skeleton's inductive invariant, discharged by Apalache (an extra; TLC decides)
        from ..tlc import TLCError, run_apalache
        base = ["--cinit=ConstInit", "--inv=IndInv"]
        step = run_apalache("StopSkeleton", base + ["--init=IndInit", "--length=1"])
        init = run_apalache("StopSkeleton", base + ["--init=Init", "--length=0"])
        neg = run_apalache("StopSkeleton", ["--cinit=ConstInit", "--inv=TooStrong", "--init=IndInit", "--length=1"])
        if "Error" in (step, init) or neg == "NoError":
            raise TLCError("StopSkeleton.tla: inductive invariant not established (step=%s init=%s negative control=%s)" % (step, init, neg))
        mc["configs"].append({"module": "StopSkeleton", "tool": "apalache-mc 0.58 (inductive invariant, unbounded itersLimit and batch size)",
                              "init_implies_IndInv": init, "IndInv_inductive": step, "negative_control_TooStrong": neg})
    cov = {
        "states": mc["states"] + stats["states"], "transitions": mc["transitions"] + stats["states"],
        "traces_validated_against_impl": stats["runs"],
        "samples": [scen.sample_of(runs[0]), scen.sample_of(runs[len(runs) // 2]), scen.sample_of(runs[-1])],
        "trials_validated": stats["trials"], "events_validated": stats["events"], "events_by_kind": stats["kinds"],
        "trials_by_dimension": stats["by_n"],
        "model_checking_configs": mc["configs"],
        "failing_clauses_of_other_properties": other_clause_failures(pid, failures),
        "explanation": EXPL[pid],
    }
    return finish(ctx, "model_checking", cov, scen.ASSUMPTIONS)
