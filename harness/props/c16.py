"""C16: objective failure is contained.  Fault enumeration: for every base run, EVERY evaluation index k >= 2 of the run
is a fault position (exception types rotate over the positions; a subset of positions gets every type), the real
solver is run with the objective raising exactly there, and the recorded run is validated by AGPTrace.tla: Solve
returns, the result and the search information are those of the k-1 completed trials, the failed point is absent.
AGP.tla explores the same fault action exhaustively at design level (EvalRaise enabled in every evaluation state)."""
import random as _r
import warnings

from ..agp_drv import FnProblem, SolverRun, objective_zoo, rand_box_solver
from ..common import finish
from ..solver_tv import FAMILY, other_clause_failures, report_failures, validate_runs
from .. import scen


def fault_matrix(ctx):
    rng = ctx.rng
    q = ctx.quick
    types = scen.EXC + [scen.CustomBase]
    runs, cases = [], []
    nbases = 7 if q else 60
    for b in range(nbases):
        n = [1, 2, 3, 1, 2, 1, 4][b % 7] if q else rng.choice([1, 1, 2, 2, 3, 4, 5])
        lo, up = rand_box_solver(rng, n)
        seed = rng.randrange(1 << 30)
        name, f = objective_zoo(_r.Random(seed), n, lo, up)
        r, eps, limit, m = scen.rand_params(rng, n)
        limit = rng.choice([9, 14, 20]) if q else rng.choice([12, 20, 30, 45])
        mk = lambda **kw: SolverRun(FnProblem(n, lo, up, f, name), r=r, eps=eps, limit=limit, m=m, **kw)   # noqa: E731
        base = mk(tag=name + "/base", full_snap=False)
        base.solve()
        runs.append(base)
        nglob = sum(1 for e in base.events if e["ev"] == "trial")
        alltypes_at = set(rng.sample(range(2, nglob + 1), min(2 if q else 3, max(0, nglob - 1))))
        for k in range(2, nglob + 1):
            for ti, exc in enumerate(types):
                if k not in alltypes_at and ti != (k + b) % len(types):
                    continue
                mode = rng.choice(["solve", "solve", "dgi+solve"]) if k > 3 else "solve"
                # exception objects with a message and without any argument (a real Ctrl-C, a bare `raise RuntimeError`) alternate
                inst = exc("injected") if (k + ti) % 2 == 0 else exc()
                run = mk(fault=(k, inst), tag="%s/fault@%d:%s%s/%s" % (name, k, exc.__name__, "" if inst.args else "()", mode),
                         listener=rng.choice(["rec", "rec", "none"]))
                if mode == "dgi+solve":
                    for j in scen.compositions(rng, rng.randint(1, k - 2)):
                        run.dgi(j)
                if (k + b) % 4 == 0:
                    # the user's interpreter turns warnings into errors (python -W error, pytest filterwarnings=error): Solve must return all the same
                    with warnings.catch_warnings():
                        warnings.simplefilter("error")
                        run.solve()
                    run.events[0]["tag"] += "/-Werror"
                else:
                    run.solve()
                fired = any(e["ev"] == "fail" for e in run.events)
                if fired and rng.random() < 0.4:
                    # beyond C16's statement (specification growth): the solver is used further after the contained failure; the trace
                    # specification models what the code does then - the interval popped for the failed evaluation stays out of the queue
                    # until the next full recalculation - and every later trial must follow the rule on the remaining intervals
                    for j in scen.compositions(rng, rng.randint(2, 10)):
                        run.dgi(j)
                    run.solve()
                cases.append({"base": b, "n": n, "objective": name, "k": k, "exc": exc.__name__, "mode": mode,
                              "fired_in_solve": fired, "trials_of_base": nglob})
                runs.append(run)
    return runs, cases


def local_phase_faults(ctx):
    """refineSolution=True and the objective raising during the Nelder-Mead phase of Solve."""
    rng = ctx.rng
    runs = []
    for _ in range(2 if ctx.quick else 10):
        n = rng.choice([1, 2, 3])
        lo, up = rand_box_solver(rng, n)
        w = [b - a for a, b in zip(lo, up)]
        g = [rng.choice([-1, 1]) * rng.uniform(0.5, 2) for _ in range(n)]
        f = lambda y, g=g: sum(gi * (t - a) / wi for gi, t, a, wi in zip(g, y, lo, w))     # noqa: E731
        base = SolverRun(FnProblem(n, lo, up, f, "linear"), r=2.5, eps=0.05, limit=60, refine=True, tag="linear/base", full_snap=False)
        base.solve()
        nglob = sum(1 for e in base.events if e["ev"] == "trial")
        nall = len(base.rp.log)
        if nall <= nglob:
            continue
        k = rng.randint(nglob + 1, nall)
        exc = rng.choice([ValueError, KeyboardInterrupt, ZeroDivisionError])
        run = SolverRun(FnProblem(n, lo, up, f, "linear"), r=2.5, eps=0.05, limit=60, refine=True,
                        fault=(k, exc("injected")), tag="linear/localfault@%d:%s" % (k, exc.__name__), full_snap=False)
        run.solve()
        runs.append(run)
    return runs


def run(ctx):
    runs, cases = fault_matrix(ctx)
    failures, stats = validate_runs(ctx, runs)
    report_failures(ctx, "C16", failures)
    # failures during the local refinement phase (refineSolution=True): reported with their own signature
    lruns = local_phase_faults(ctx)
    lfail, lstats = validate_runs(ctx, lruns, label="agp-local") if lruns else ([], {"runs": 0, "states": 0})
    from ..common import report
    for f in lfail:
        if f["clause"] == "FailContained":
            report(ctx, "C16 clause=FailContained phase=local-refinement refineSolution=True",
                   {"clause": "FailContained", "tag": f["run"].events[0].get("tag"), "event": {k: v for k, v in f["event"].items() if k != "snap"}})
    fired = [c for c in cases if c["fired_in_solve"]]
    mc = scen.agp_design_mc(ctx, "C16")
    distinct = len({(c["base"], c["k"], c["exc"]) for c in fired})
    cov = {
        "evaluations": len(cases) + len(lruns), "distinct_nontrivial": distinct,
        "rule": "for each base run every evaluation index k = 2..T is a fault position; the exception type rotates over "
                "positions and a few positions per base get all 13 types (Exception, ValueError, ZeroDivisionError, TypeError, "
                "KeyboardInterrupt, SystemExit, GeneratorExit, StopIteration, MemoryError, RecursionError, KeyError, OSError, a custom "
                "BaseException), with and without arguments, a quarter of the positions under warnings-as-errors; a case is non-trivial when the "
                "injected exception really fired inside Solve; distinct = distinct (base run, k, type)",
        "samples": [fired[0], fired[len(fired) // 2], fired[-1]] if fired else cases[:1],
        "exhaustive": False,
        "positions_by_base": sorted({(c["base"], c["trials_of_base"]) for c in cases}),
        "exception_types": sorted({c["exc"] for c in fired}),
        "traces_validated_against_impl": stats["runs"] + lstats["runs"], "events_validated": stats["events"],
        "states": mc["states"] + stats["states"], "transitions": mc["transitions"] + stats["states"],
        "model_checking_configs": mc["configs"],
        "local_phase_fault_runs": len(lruns),
        "failing_clauses_of_other_properties": other_clause_failures("C16", failures),
        "explanation": "every fault position of every base run is executed on the real solver and the recorded run is validated "
                       "by AGPTrace.tla: after the failure the result must be that of the k-1 completed trials (Count, BestValue, "
                       "BestIsTrial), the full snapshot must equal the specification's record of those trials (the failed point "
                       "absent), and Solve must return (FailContained)",
    }
    return finish(ctx, "fault_enumeration", cov, scen.ASSUMPTIONS + [
        "scenario space: refineSolution=False for the k-1-trials clauses (a refinement after the failure evaluates the objective "
        "again); failures inside the refinement phase are run separately and reported under their own signature"])
