"""C13: listener contract.
  MC   AGP.tla: NotifOK / NotifTrialsOK / StopNotifOK in every state of the exhaustive exploration.
  GEN  all 8 subsets of overridden callbacks x batching patterns x N; all shipped listeners and modes.
  TV   the recording listener's log is validated by AGPTrace.tla (told once before the first trial, once per
       DoGlobalIteration call with exactly that call's new trials in order, once per Solve with the final solution);
       non-interference = SeqCompare.tla against the listener-free run; the console result block is parsed from the
       captured stdout and compared by TLC with the Solution (ConsoleReport)."""
import contextlib
import fractions
import io
import itertools
import os
import random as _r
import re
import shutil
import tempfile

from ..agp_drv import LISTENER_SHAPES, FnProblem, SolverRun, objective_zoo, rand_box_solver, snapshot_solution
from ..common import finish, q, report
from ..pairs import Pairs
from ..solver_tv import FAMILY, other_clause_failures, report_failures, validate_runs
from .. import scen

FAMILY["C13"] = {"NotifBefore", "NotifNewPoints", "NotifEndIterCount", "NotifStopCount", "NotifStopFinal", "NotifStopStatus",
                 "ConsoleReport", "SolveReturns", "NoIntExc", "DgiCount", "NotifListKept"}

SUBSETS = [tuple(c) for k in range(4) for c in itertools.combinations(("before", "enditer", "stop"), k)]


def samples_objective(label):
    """listeners / modes that evaluate the objective on a grid of their own to draw it"""
    return label in ("static:objective function", "staticND:lines layers:objective function", "anim:False:True", "animND:True")


def shipped_listeners(n, tmp, rng):
    """(label, factory) for every shipped listener / mode applicable to dimension n (documented domains)."""
    from iOpt.method.listener import (AnimationNDPaintListener, AnimationPaintListener, ConsoleFullOutputListener,
                                      StaticNDPaintListener, StaticPaintListener)
    out = []
    for mode in ("full", "custom", "result"):
        out.append(("console:" + mode, lambda mode=mode: ConsoleFullOutputListener(mode=mode, iters=rng.choice([1, 3, 100]))))

    class QuietConsole(ConsoleFullOutputListener):
        """a user's subclass of a shipped listener that changes the constructor only"""
        def __init__(self):
            super().__init__(mode="result")
    out.append(("console-subclass:result", QuietConsole))
    for mode in ("objective function", "only points", "approximation", "interpolation"):
        for bottom in (False, True):
            out.append(("static:%s%s" % (mode, ":bottom" if bottom else ""),
                        lambda mode=mode, bottom=bottom: StaticPaintListener("s.png", tmp, indx=rng.randrange(n), isPointsAtBottom=bottom, mode=mode)))
    if n >= 2:
        pair = sorted(rng.sample(range(n), 2))
        for mode, calc in (("lines layers", "objective function"), ("lines layers", "interpolation"), ("surface", "approximation"), ("surface", "interpolation")):
            out.append(("staticND:%s:%s" % (mode, calc), lambda mode=mode, calc=calc: StaticNDPaintListener("nd.png", tmp, varsIndxs=pair, mode=mode, calc=calc)))
        for obj in (True, False):
            out.append(("animND:%s" % obj, lambda obj=obj: AnimationNDPaintListener("an.png", tmp, varsIndxs=pair, toPaintObjFunc=obj)))
    if n == 1:
        for bottom, obj in ((False, True), (True, False)):
            out.append(("anim:%s:%s" % (bottom, obj), lambda bottom=bottom, obj=obj: AnimationPaintListener("a.png", tmp, isPointsAtBottom=bottom, toPaintObjFunc=obj)))
    return out


RESULT_RE = {
    "gtr": r"global iteration count:\s+(\S+)", "ltr": r"local iteration count:\s+(\S+)",
    "point": r"solution point:\s+\[([^\]]*)\]", "value": r"solution value:\s+(\S+)", "acc": r"accuracy:\s+(\S+)",
}


def parse_console(out):
    """the last 'Result' block of the console listener's output -> event fields, or None"""
    i = out.rfind("Result")
    if i < 0:
        return None                      # no final report at all
    blk = out[i:]
    d = {}
    for k, rx in RESULT_RE.items():
        m = re.search(rx, blk)
        if not m:
            return "unparsed"            # a report is there but not in the layout this parser knows: not judged (noted)
        d[k] = m.group(1)

    def num(s):
        s = s.strip().rstrip("|")
        if s in ("inf", "-inf"):
            return s
        return q(fractions.Fraction(s))
    try:
        return {"ev": "cb", "kind": "console", "gtr": int(float(d["gtr"])), "ltr": int(float(d["ltr"])),
                "point": [num(t) for t in d["point"].replace(",", " ").split()], "value": num(d["value"]), "acc": num(d["acc"])}
    except (ValueError, ZeroDivisionError):
        return {"ev": "cb", "kind": "console", "gtr": -1, "ltr": -1, "point": [], "value": "0", "acc": "0"}


def drive(run, pattern):
    buf = io.StringIO()
    with contextlib.redirect_stdout(buf):
        for (name, k) in pattern:
            if name == "dgi":
                run.dgi(k)
            else:
                run.solve()
    return buf.getvalue() + getattr(run, "stdout", "")


def seq_of(run):
    return [[e["x"], e["ylog"], e["zlog"]] for e in run.events if e["ev"] == "trial"]


def result_of(run):
    s = snapshot_solution(run.solver.GetResults())
    return [s["ntr"], s["nloc"], s["by"], s["bv"], s["acc"]]


def run(ctx):
    import matplotlib
    matplotlib.use("Agg")
    import matplotlib.pyplot as plt
    rng = ctx.rng
    qk = ctx.quick
    pairs = Pairs(ctx, "c13")
    tmp = tempfile.mkdtemp(prefix="ioptverif-c13-")
    cwd = os.getcwd()
    os.chdir(tmp)
    runs, samples, combos = [], [], []
    try:
        # bounds with two-decimal ends for which a float step (b - a) / 150 does not land on b exactly: grids built by stepping
        # (np.arange) get one node too many there - every third painter problem uses them on every axis
        AWKWARD = [(3.79, 4.42), (0.22, 1.41), (-1.09, 0.09999999999999987), (-3.4, -1.0499999999999998), (1.54, 3.92)]
        awk = itertools.count()

        def problem(n, awkward=False):
            lo, up = rand_box_solver(rng, n)
            if awkward:
                k = next(awk)
                lo = [AWKWARD[(k + i) % len(AWKWARD)][0] for i in range(n)]
                up = [AWKWARD[(k + i) % len(AWKWARD)][1] for i in range(n)]
            fseed = rng.randrange(1 << 30)
            name, f = objective_zoo(_r.Random(fseed), n, lo, up)
            return FnProblem(n, lo, up, f, name)

        def patterns(limit):
            total = rng.randint(1, min(limit, 12))
            return [[("solve", 0)], [("dgi", k) for k in scen.compositions(rng, total)] + [("solve", 0)],
                    [("dgi", total)], [("dgi", 1), ("dgi", 2), ("solve", 0), ("solve", 0)]]

        # (1) every subset of overridden callbacks x batching x N  (a listener derived from the base class)
        for n in (1, 2, 3):
            for si, sub in enumerate(SUBSETS):
                prob = problem(n)
                r_, eps, limit, m = scen.rand_params(rng, n)
                ref = None
                for pi, pat in enumerate(patterns(limit)):
                    if qk and pi not in (1, 3) and sub not in ((), ("before", "enditer", "stop")):
                        continue
                    run = SolverRun(prob, r=r_, eps=eps, limit=limit, m=m, tag="%s/subset=%s" % (prob.name, "+".join(sub) or "none"), cbs=sub,
                                    full_snap=False, refine=rng.random() < 0.2, lshape=LISTENER_SHAPES[(si + pi + n) % len(LISTENER_SHAPES)])
                    refrun = SolverRun(prob, r=r_, eps=eps, limit=limit, m=m, tag=prob.name + "/no-listener", listener="none", full_snap=False,
                                       refine=run.params.refineSolution)
                    drive(run, pat)
                    drive(refrun, pat)
                    meta = {"listener": "recording listener overriding {%s}" % ", ".join(sub), "n": n, "pattern": pat}
                    pairs.add("SameTrials", "equal", seq_of(run), seq_of(refrun), meta)
                    pairs.add("SameResult", "equal", result_of(run), result_of(refrun), meta)
                    runs += [run, refrun]
                    combos.append(("subset", sub, n))
            samples.append({"subset_runs_for_N": n, "subsets": ["+".join(s) or "none" for s in SUBSETS]})
        # (2) shipped listeners and modes, alone and in combinations, with the recording listener attached before / after them
        for n in (1, 2, 3):
            zoo = shipped_listeners(n, tmp, rng)
            todo = [[z] for z in zoo]
            for _ in range(2 if qk else 12):
                todo.append(rng.sample(zoo, rng.randint(2, 3)))
            if qk:
                keep = [t for t in todo if len(t) > 1 or t[0][0].startswith("console") or samples_objective(t[0][0])]
                rest = [t for t in todo if t not in keep]
                todo = keep + rng.sample(rest, min(len(rest), 6 if n > 1 else 5))
            for ci, combo in enumerate(todo):
                labels = [c[0] for c in combo]
                prob = problem(n, awkward=(ci % 3 == 0 or any(samples_objective(l) for l in labels)))
                r_, eps, limit, m = scen.rand_params(rng, n)
                limit = min(limit, 40)
                if any(l.startswith("console") for l in labels) and ci % 3 != 2:
                    limit = (1, 2)[ci % 3]       # a search of one or two trials: the accuracy is still inf / just defined, the report must say so
                pat = rng.choice(patterns(limit)[:2] + [[("dgi", 2), ("solve", 0)]])
                if not any(c[0] == "solve" for c in pat):
                    pat = pat + [("solve", 0)]
                first = rng.random() < 0.5
                run = SolverRun(prob, r=r_, eps=eps, limit=limit, m=m, tag="%s/%s" % (prob.name, "+".join(labels)), full_snap=False,
                                extra_listeners=[c[1]() for c in combo], extra_first=first, probing=True, refine=rng.random() < 0.2)
                refrun = SolverRun(prob, r=r_, eps=eps, limit=limit, m=m, tag=prob.name + "/no-listener", listener="none", full_snap=False,
                                   refine=run.params.refineSolution)
                out = drive(run, pat)
                plt.close("all")
                drive(refrun, pat)
                solved = [e for e in run.events if e["ev"] == "ret" and e["name"] == "solve"]
                if any(l.startswith("console") for l in labels) and solved and solved[-1]["raised"] == "none":
                    # (if another listener's OnMethodStop raised - the recorded interpolation finding - the console never got its turn)
                    ev = parse_console(out)
                    if ev is None:
                        ev = {"ev": "cb", "kind": "console", "gtr": -1, "ltr": -1, "point": [], "value": "0", "acc": "0"}
                    if ev == "unparsed":
                        ctx.notes.append("console report present but not in the known layout: not compared (%s)" % "+".join(labels))
                    else:
                        run.emit(ev)
                meta = {"listener": labels, "n": n, "pattern": pat, "recording_listener_attached": "after" if first else "before"}
                pairs.add("SameTrials", "equal", seq_of(run), seq_of(refrun), meta)
                pairs.add("SameResult", "equal", result_of(run), result_of(refrun), meta)
                runs += [run, refrun]
                combos.append(("shipped", tuple(labels), n))
                if len(samples) < 8:
                    samples.append({"listeners": labels, "n": n, "pattern": pat, "trials": len(seq_of(run))})
        # (3) one listener object shared by two solvers, used one after the other and interleaved
        from ..agp_drv import SharedRecListener
        for gi in range(4 if qk else 30):
            grp = []
            for j in range(2):
                prob = problem(rng.choice([1, 2]))
                r_, eps, limit, m = scen.rand_params(rng, prob.numberOfFloatVariables)
                run = SolverRun(prob, r=r_, eps=eps, limit=min(limit, 30), m=m, tag="%s/shared-listener#%d" % (prob.name, j + 1), listener="none", full_snap=False)
                run.cbs = ["before", "enditer", "stop"]
                run.events[0]["cbs"] = run.cbs
                grp.append(run)
            shared = SharedRecListener(grp)
            for run in grp:
                run.solver.AddListener(shared)
            if gi % 2 == 0:
                for run in grp:
                    drive(run, [("dgi", 2), ("solve", 0)])
            else:
                drive(grp[0], [("dgi", 1)]), drive(grp[1], [("dgi", 3)]), drive(grp[0], [("solve", 0)]), drive(grp[1], [("solve", 0)])
            runs += grp
            combos.append(("shared", ("one listener object on two solvers",), grp[0].n))
    finally:
        os.chdir(cwd)
        shutil.rmtree(tmp, ignore_errors=True)
    # (4) the objective fails inside Solve (contained): the listeners are still told, once, that Solve ended - with the solution it returns
    frs = scen.fault_runs(ctx, 3 if qk else 20, full_snap=False)
    for fr in frs:
        fr.events[0]["tag"] += "/listener-sees-contained-failure"
    runs += frs
    failures, stats = validate_runs(ctx, runs)
    # signatures name the listener combination
    for f in failures:
        if f["clause"] in FAMILY["C13"] or f["clause"] in ("Malformed", "WrongDimensionInBatch"):
            tag = f["run"].events[0].get("tag", "")
            lis = tag.split("/", 1)[1] if "/" in tag else tag
            exc = f["event"].get("_exc") or {}
            sig = "C13 clause=%s listener=%s N%s" % (f["clause"], lis, "=1" if f["run"].n == 1 else ">=2")
            if exc:
                sig += " exc=%s:%s" % (exc.get("type"), (exc.get("msg") or "")[:48])
            report(ctx, sig,
                   {"clause": f["clause"], "event": {k: v for k, v in f["event"].items() if k != "snap"}, "tag": tag})
    pf, pstats = pairs.decide()
    for f in pf:
        report(ctx, "C13 clause=%s listener=%s" % (f["clause"], f["meta"]["listener"]), {"clause": f["clause"], "first_differing_index": f["index"], "case": f["meta"]})
    mc = scen.agp_design_mc(ctx, "C13")
    cov = {
        "states": mc["states"] + stats["states"], "transitions": mc["transitions"] + stats["states"],
        "traces_validated_against_impl": stats["runs"], "samples": samples,
        "listener_configurations": len(set(combos)), "callback_subsets": len(SUBSETS),
        "shipped_listener_variants": sorted({l for c in combos if c[0] == "shipped" for l in c[1]}),
        "pairwise_records": pstats["records"], "events_validated": stats["events"], "trials_validated": stats["trials"],
        "model_checking_configs": mc["configs"],
        "failing_clauses_of_other_properties": other_clause_failures("C13", failures),
        "explanation": "listeners derived from the base class overriding each of the 8 subsets of callbacks, and every shipped listener/mode within its "
                       "documented dimension (alone and combined, recording listener attached before or after), are attached to real solvers driven "
                       "through several batching patterns; TLC checks the notification clauses on the recorded log, SeqCompare.tla requires trials and "
                       "result equal to the listener-free run, and the console result block parsed from stdout must agree with the Solution",
    }
    return finish(ctx, "model_checking", cov, scen.ASSUMPTIONS + [
        "documented listener domains: N-D painters need N >= 2, AnimationPaintListener is one-dimensional, StaticPaintListener takes indx for N >= 2",
        "rendering correctness of the painters is out of scope; figures are drawn with the Agg backend into a temporary directory"])
