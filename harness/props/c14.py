"""C14: GKLS functions have the promised structure and are reproducible.
GKLSSpec.tla evaluates, per function, the structural predicates on the parameters read from the generated object, recomputes
every observed value by its own three-way case analysis (test points: minimisers, points inside every ball along axes /
towards the paraboloid vertex / random directions, far-field points, box corners), requires continuity on pairs straddling
every ball boundary, and compares parameters and 50 values with the committed reference (golden/gkls.json).
All objects of a run are created first and stay alive while each is dumped and evaluated in another order."""
import random as _r

from ..common import chunks, finish, report, run_batches, tagged_values, write_ndjson
from ..gkls_drv import build_record, load_golden
from ..tlc import TLCError, run_tlc


def check(ctx, recs, label="gkls"):
    nch = max(1, min(16, len(recs) // 6))
    jobs, metas = [], []
    for ci, ch in enumerate(chunks(recs, nch)):
        path = ctx.path("%s-%d.ndjson" % (label, ci))
        write_ndjson(path, ch)
        jobs.append(lambda path=path: run_tlc("GKLSSpec", "SPECIFICATION Spec\nCHECK_DEADLOCK FALSE\n", env={"TRACE_FILE": path}, workers=1,
                                              timeout=3400, xmx="4g"))
        metas.append(ch)
    out = []
    for ch, res in zip(metas, run_batches(jobs)):
        vs = tagged_values(res.out, "GKLS")
        if not res.ok or len(vs) != len(ch):
            raise TLCError("GKLSSpec produced %d of %d verdicts:\n%s" % (len(vs), len(ch), res.out[-2500:]))
        out += [v[0] for v in vs]
    return out


def run(ctx):
    rng = ctx.rng
    qk = ctx.quick
    golden = load_golden()
    fns = [(d, k) for d in (2, 3, 4, 5) for k in range(1, 101)]
    if qk:
        fns = [(d, k) for d in (2, 3, 4, 5) for k in rng.sample(range(1, 101), 12)] + [(3, 1)]
    rng.shuffle(fns)             # construction order matters for state shared between generator objects
    # "function (n, k) is always the same function": all objects are created first and stay alive, then each is dumped and
    # evaluated in another order - as in a benchmark loop that builds the problem set before using it
    from iOpt.problems.GKLS import GKLS
    objs = {(d, k): GKLS(d, k) for (d, k) in fns}
    order = list(fns)
    rng.shuffle(order)
    # the random-stream oracle (KnuthRNG.tla, about 7 s of TLC per function) for a subset in the quick tier, for all in the thorough tier
    streamed = set(order[:8]) if qk else set(order)
    byfn = {(d, k): build_record(d, k, rng, golden, problem=objs[(d, k)], stream=(d, k) in streamed) for (d, k) in order}
    recs = [byfn[f] for f in fns]
    if qk:
        # all other functions as light records: structure, basin inequalities, values at the minimisers, reference parameters/values
        others = [(d, k) for d in (2, 3, 4, 5) for k in range(1, 101) if (d, k) not in byfn]
        for (d, k) in others:
            recs.append(build_record(d, k, rng, golden, light=True))
    recs.sort(key=lambda r: (not r["rng"]))
    k = max(1, min(16, len(recs) // 6))
    recs = [recs[i] for j in range(k) for i in range(j, len(recs), k)]     # interleave so that every TLC batch gets its share of stream checks
    # binding demonstration: a perturbed parameter / value must be rejected
    import copy
    bad = copy.deepcopy(recs[0])
    bad["f"][3] = bad["f"][1]                      # a second minimum as low as the global one (f[1] = -1)
    bad2 = copy.deepcopy(recs[0])
    bad2["pts"][12][1] = bad2["pts"][13][1]        # a wrong value inside a ball
    selftest = None
    if not qk:
        # Knuth's published self-test of the generator on the exact model (about 6 minutes of TLC, in parallel with the batches)
        import concurrent.futures
        pool = concurrent.futures.ThreadPoolExecutor(1)
        selftest = pool.submit(lambda: run_tlc("KnuthSelfTest", "", workers=1, timeout=3000, xmx="4g", xss="256m"))
    verdicts = check(ctx, recs + [bad, bad2])
    if selftest is not None:
        r = selftest.result()
        if not r.ok or '"KNUTH"' not in r.out or "TRUE>>" not in r.out:
            raise TLCError("KnuthSelfTest failed:\n" + r.out[-1500:])
    base_clean = not verdicts[0]["failed"]          # the demonstration needs an accepted record to corrupt
    if base_clean and ("OtherMinimaNotHigher" not in verdicts[-2]["failed"] or not ({"CubicInside", "ParaboloidOutside", "ValueAtMinimiser"} & set(verdicts[-1]["failed"]))):
        raise TLCError("binding demonstration failed: corrupted GKLS records were accepted: %s / %s" % (verdicts[-2]["failed"], verdicts[-1]["failed"]))
    kinds = {"paraboloid": 0, "cubic": 0, "minimiser": 0}
    npts = npairs = 0
    for v in verdicts[:len(recs)]:
        for k in kinds:
            kinds[k] += v["kinds"][k]
        npts += v["points"]
        npairs += v["pairs"]
        for cl in v["failed"]:
            report(ctx, "C14 clause=%s dim=%d" % (cl, v["dim"]), {"clause": cl, "dimension": v["dim"], "number": v["nf"]})
    cov = {
        "explanation": "per function: structural predicates on the generated parameters (10 minimisers in the box, pairwise non-overlapping balls incl. the "
                       "paraboloid vertex, class distance and radius of the global minimiser, value -1 and all other minima strictly higher, value formula), "
                       "every observed value recomputed by the specification's own case analysis (paraboloid / exact value at minimisers / cubic), continuity "
                       "across every ball boundary, and bit-equality of parameters and 50 values with the committed reference",
        "evaluations": len(recs), "distinct_nontrivial": len(recs),
        "rule": "one case per (dimension, number); all distinct; every case has points of all three kinds",
        "samples": [{"dim": recs[0]["dim"], "nf": recs[0]["nf"], "first_points": recs[0]["pts"][10:13]}],
        "functions": len(recs), "points_recomputed": npts, "points_by_branch": kinds, "boundary_pairs": npairs,
        "reference_values_compared": 50 * len(recs), "functions_checked_against_the_exact_random_stream": len(streamed), "corrupted_records_rejected": 2, "exhaustive": not qk,
        "knuth_published_self_test_reproduced_by_the_exact_model": None if qk else True,
    }
    return finish(ctx, "other", cov, [
        "parameters are read from the public attributes GKLS.function.GKLS_minima of the generated object",
        "the reference golden/gkls.json was recorded from the pinned tree (no fix: commit touches iOpt/problems)",
        "square roots are enclosed to 2^-72 relative; comparisons of quantities the code computes with sqrt carry a 1e-9 slack"])
