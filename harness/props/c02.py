"""C02: every trial is placed by the AGP decision rule."""
from ..agp_drv import SolverRun, random_problem
from ..common import finish
from ..solver_tv import other_clause_failures, report_failures, validate_runs
from .. import scen


def run(ctx):
    runs = scen.general_runs(ctx, 70 if ctx.quick else 1500, batches=True)
    runs += scen.benchmark_runs(ctx, quick=ctx.quick)
    runs += scen.past_budget_runs(ctx, 6 if ctx.quick else 60)
    runs += scen.small_r_runs(ctx, 10 if ctx.quick else 120)
    if not ctx.quick:
        runs += scen.long_runs(ctx)
    failures, stats = validate_runs(ctx, runs)
    report_failures(ctx, "C02", failures)
    mc = scen.agp_design_mc(ctx, "C02")
    beh = scen.behaviour_replay(ctx, "C02")
    mc["states"] += beh["states"]
    mc["transitions"] += beh["states"]
    cov = {
        "states": mc["states"] + stats["states"], "transitions": mc["transitions"] + stats["states"],
        "traces_validated_against_impl": stats["runs"],
        "samples": [scen.sample_of(runs[0]), scen.sample_of(runs[len(runs) // 2])],
        "trials_validated": stats["trials"], "argmax_comparisons": stats["argmax_comparisons"],
        "full_recomputations_of_characteristics": stats["recalcs"], "trials_by_dimension": stats["by_n"],
        "model_checking_configs": mc["configs"], "spec_to_code_replay": beh,
        "failing_clauses_of_other_properties": other_clause_failures("C02", failures),
        "explanation": "every trial of every recorded run: TLC recomputes M, z* and all characteristics exactly from the "
                       "history and requires the subdivided interval to be an arg-max (within 2^-40 relative) and the "
                       "new point to be the rule's point; AGP.tla explored exhaustively over all objectives with values "
                       "in a finite set",
    }
    return finish(ctx, "model_checking", cov, scen.ASSUMPTIONS)
