"""C10, two-dimensional families: Grishagin (quadtree certificates checked by BoxCert2D.tla) and StronginC3 (refutation-only
sampling: the constrained minimum lies on a constraint boundary, no acceptance certificate is built)."""
import math
import multiprocessing as mp

import numpy as np

from ..common import chunks, q, report, run_batches, tagged_values, use_repo, write_ndjson
from ..tlc import TLCError, run_tlc

use_repo()
H2D = 2.0 ** -20
EPSS = 1e-10
TVREL, DELTA = 2e-3, 5e-3


def grishagin_record(fn, maxdepth=16):
    from iOpt.problems.grishagin import Grishagin
    p = Grishagin(fn)
    _sibling = Grishagin(fn % 100 + 1)     # the instance lives among siblings, as in a benchmark loop
    F = p.function

    def f(x, y):
        return float(F.Calculate(np.array([x, y], dtype=np.double)))
    A, B, C, D = np.abs(F.af), np.abs(F.bf), np.abs(F.cf), np.abs(F.df)
    I = np.arange(1, 8)
    r2 = (I[:, None] ** 2 + I[None, :] ** 2).astype(float)
    pi = 3.1415927
    w = (A + B, C + D)
    D0 = [t.sum() for t in w]
    G = [pi * (t * np.sqrt(r2)).sum() for t in w]
    Hh = [pi ** 2 * (t * r2).sum() for t in w]
    T = [pi ** 3 * (t * r2 ** 1.5).sum() for t in w]
    safe = 1 + 1e-6
    LS2 = 2 * (G[0] ** 2 + D0[0] * Hh[0] + G[1] ** 2 + D0[1] * Hh[1]) * safe
    LS3 = 2 * (3 * G[0] * Hh[0] + D0[0] * T[0] + 3 * G[1] * Hh[1] + D0[1] * T[1]) * safe
    opt = [float(t) for t in p.knownOptimum[0].point.floatVariables]
    optv = float(p.knownOptimum[0].functionValues[0].value)
    fobs = f(opt[0], opt[1])
    # an observed value at least as good as the declared one (the declared point is a 6-decimal table entry)
    from scipy.optimize import minimize
    nm = minimize(lambda z: f(min(max(z[0], 0.0), 1.0), min(max(z[1], 0.0), 1.0)), opt, method="Nelder-Mead", options={"xatol": 1e-10, "fatol": 1e-13})
    fbest = min(fobs, f(min(max(nm.x[0], 0.0), 1.0), min(max(nm.x[1], 0.0), 1.0)))
    sdecl = max(fobs * fobs, fbest * fbest) - EPSS
    sallow = optv * optv * (1 + TVREL) ** 2
    h = H2D
    eg = (LS3 * h * h / 6 + EPSS / h) * safe
    s2 = math.sqrt(2) * safe
    stats = [0, 0]

    def build(x0, y0, wd, depth):
        mx, my = x0 + wd / 2, y0 + wd / 2
        v = (f(mx, my), f(mx + h, my), f(mx - h, my), f(mx, my + h), f(mx, my - h))
        rad = wd / 2 * s2
        gx = (v[1] ** 2 - v[2] ** 2) / (2 * h)
        gy = (v[3] ** 2 - v[4] ** 2) / (2 * h)
        ub = (v[0] ** 2 + EPSS + (math.hypot(gx, gy) * safe + eg * s2) * rad + LS2 * rad * rad / 2) * (1 + 1e-9)
        near = x0 >= opt[0] - DELTA and x0 + wd <= opt[0] + DELTA and y0 >= opt[1] - DELTA and y0 + wd <= opt[1] + DELTA
        if ub < sdecl or (near and ub <= sallow) or depth >= maxdepth or stats[0] > 250000 or abs(fobs - optv) > 1e-4:
            stats[0] += 1
            if depth >= maxdepth and not (ub < sdecl or (near and ub <= sallow)):
                stats[1] += 1
            return [q(t) for t in v]
        hw = wd / 2
        return [build(x0, y0, hw, depth + 1), build(x0 + hw, y0, hw, depth + 1), build(x0, y0 + hw, hw, depth + 1), build(x0 + hw, y0 + hw, hw, depth + 1)]
    tree = build(0.0, 0.0, 1.0, 0)
    qq = lambda m: [[q(float(t)) for t in row] for row in m]    # noqa: E731
    return {"kind": "grishagin", "fn": fn, "A": qq(F.af), "B": qq(F.bf), "C": qq(F.cf), "D": qq(F.df), "opt": [q(t) for t in opt], "optv": q(optv),
            "fobs": q(fobs), "fbest": q(fbest), "h": q(h), "epss": q(EPSS), "tvrel": q(TVREL), "delta": q(DELTA), "tree": tree, "_leaves": stats[0], "_unresolved": stats[1]}


def _grec(fn):
    return grishagin_record(fn)


def grishagin_screen(fn):
    """Refutation screen (sound, cheap): a grid + local search for a point whose observed value beats the declared minimum by more than
    the tolerance.  An observed value is a fact; the acceptance certificate (quadtree) is what proves the absence of such points."""
    from iOpt.problems.grishagin import Grishagin
    from scipy.optimize import minimize
    try:
        p = Grishagin(fn)
    except Exception as ex:      # noqa: BLE001   (a member that cannot be constructed is a verdict of the evaluation screen of C10; skipped here)
        return {"fn": fn, "skipped": type(ex).__name__}
    try:
        _sibling = Grishagin(fn % 100 + 1)
    except Exception:       # noqa: BLE001
        _sibling = None
    F = p.function
    f = lambda x, y: float(F.Calculate(np.array([x, y], dtype=np.double)))     # noqa: E731
    opt = [float(t) for t in p.knownOptimum[0].point.floatVariables]
    optv = float(p.knownOptimum[0].functionValues[0].value)
    fobs = f(opt[0], opt[1])
    xs = np.linspace(0.0, 1.0, 61)
    cand = sorted((f(float(a), float(b)), float(a), float(b)) for a in xs for b in xs)[:4]
    best = (fobs, opt[0], opt[1])
    for (_, a, b) in cand:
        nm = minimize(lambda z: f(min(max(z[0], 0.0), 1.0), min(max(z[1], 0.0), 1.0)), [a, b], method="Nelder-Mead", options={"xatol": 1e-8, "fatol": 1e-11})
        xa, xb = min(max(nm.x[0], 0.0), 1.0), min(max(nm.x[1], 0.0), 1.0)
        v = f(xa, xb)
        if v < best[0]:
            best = (v, xa, xb)
    return {"fn": fn, "optv": optv, "fobs": fobs, "best": best, "opt": opt}


def strongin_refutation_samples(ctx, n=20000):
    """StronginC3: no acceptance certificate (the constrained minimum lies on the boundary of constraint 2); feasible sample points
    must not beat the declared value by more than the tolerance, the declared point must be (nearly) feasible and attain the value."""
    from iOpt.problems.stronginC3 import StronginC3
    from iOpt.trial import FunctionType, FunctionValue, Point
    p = StronginC3()
    rng = ctx.rng
    lo = [float(t) for t in p.lowerBoundOfFloatVariables]
    up = [float(t) for t in p.upperBoundOfFloatVariables]
    opt = [float(t) for t in p.knownOptimum[0].point.floatVariables]
    optv = float(p.knownOptimum[0].functionValues[0].value)

    def ev(y, fid=None):
        fv = FunctionValue() if fid is None else FunctionValue(FunctionType.CONSTRAINT, fid)
        return float(p.Calculate(Point(np.array(y, dtype=np.double), []), fv).value)
    out = {"declared_value_error": abs(ev(opt) - optv), "declared_constraints": [ev(opt, k) for k in range(3)], "feasible_samples": 0, "lowest_feasible": None}
    best = None
    for i in range(n):
        if i % 2:
            y = [rng.uniform(a, b) for a, b in zip(lo, up)]
        else:
            y = [min(max(o + rng.gauss(0, 0.05), a), b) for o, a, b in zip(opt, lo, up)]
        if all(ev(y, k) <= 0 for k in range(3)):
            out["feasible_samples"] += 1
            v = ev(y)
            if best is None or v < best[0]:
                best = (v, y)
    out["lowest_feasible"] = best
    return out, optv


def run_2d(ctx, counts, undecided, instances):
    qk = ctx.quick
    fns = ctx.rng.sample(range(1, 101), 1) if qk else list(range(1, 101))
    with mp.get_context("fork").Pool(min(16, len(fns))) as pool:
        recs = pool.map(_grec, fns, chunksize=1)
    jobs, metas = [], []
    for ci, ch in enumerate(chunks(recs, min(16, len(recs)))):
        path = ctx.path("c10grish-%d.ndjson" % ci)
        write_ndjson(path, [{k: v for k, v in r.items() if not k.startswith("_")} for r in ch])
        jobs.append(lambda path=path: run_tlc("BoxCert2D", "SPECIFICATION Spec\nCHECK_DEADLOCK FALSE\n", env={"TRACE_FILE": path}, workers=1,
                                              timeout=3400, xmx="6g"))
        metas.append(ch)
    leaves = 0
    for ch, res in zip(metas, run_batches(jobs, max_workers=10)):      # (10 JVMs with 6 GB heaps at a time: leaves room on a 62 GB machine)
        vs = [v[0] for v in tagged_values(res.out, "BOX2D")]
        if not res.ok or len(vs) != len(ch):
            raise TLCError("BoxCert2D produced %d of %d verdicts:\n%s" % (len(vs), len(ch), res.out[-2500:]))
        for v in vs:
            instances["Grishagin"] = instances.get("Grishagin", 0) + 1
            leaves += v["leaves"]
            hard = set(v["failed"]) - {"LeafNotExcluded"}
            for cl in sorted(hard):
                report(ctx, "C10 family=Grishagin member=%d clause=%s" % (v["fn"], cl), {"family": "Grishagin", "member": v["fn"], "clause": cl})
            if "LeafNotExcluded" in v["failed"]:
                # an unresolved leaf is not a refutation: nothing was observed below the tolerance
                counts["undecided"] += 2
                undecided.append(("Grishagin", v["fn"], "leaves not excluded", v["bad"]))
            else:
                counts["ok" if not hard else "violated"] += 2
    # every Grishagin function: refutation screen (in the quick tier the quadtree certificate is built for one function only)
    with mp.get_context("fork").Pool(16) as pool:
        screens = pool.map(grishagin_screen, list(range(1, 101)), chunksize=4)
    screened = 0
    for sc in screens:
        if "skipped" in sc:
            continue
        screened += 1
        tol = TVREL * max(1.0, abs(sc["optv"]))
        if abs(sc["fobs"] - sc["optv"]) > 1e-4:
            report(ctx, "C10 family=Grishagin member=%d clause=DeclaredValue" % sc["fn"], sc)
        elif sc["best"][0] < sc["optv"] - tol:
            report(ctx, "C10 family=Grishagin member=%d clause=PointBelowDeclaredMinimum" % sc["fn"], sc)
    # StronginC3
    st, optv = strongin_refutation_samples(ctx, 4000 if qk else 60000)
    instances["StronginC3"] = 1
    tol = 2e-3 * max(1.0, abs(optv))
    if st["declared_value_error"] > 1e-4:
        report(ctx, "C10 family=StronginC3 clause=DeclaredValue", st)
        counts["violated"] += 1
    elif st["lowest_feasible"] is not None and st["lowest_feasible"][0] < optv - tol:
        report(ctx, "C10 family=StronginC3 clause=FeasiblePointBelowDeclaredMinimum", st)
        counts["violated"] += 1
    else:
        counts["undecided"] += 2
        undecided.append(("StronginC3", 0, "no acceptance certificate: constrained minimum on a constraint boundary; refutation sampling only", st["feasible_samples"]))
    return {"grishagin_functions_screened_for_refutations": screened, "grishagin_functions": len(fns), "grishagin_leaves_checked": leaves, "strongin_c3": {k: v for k, v in st.items() if k != "lowest_feasible"},
            "strongin_c3_lowest_feasible_value": st["lowest_feasible"][0] if st["lowest_feasible"] else None}
