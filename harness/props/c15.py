"""C15: benchmark evaluation is a pure function of the point.
  MC/GEN  ProblemReg.tla: all histories of constructions and evaluations up to a depth over two families x two members x
          three points are enumerated by TLC and replayed on the real classes for several family pairs.
  TV      ProblemTrace.tla: one memo per (family, member, function id, point) shared by all histories of a file; every
          evaluation must return the memoised value bit for bit, leave the point unchanged and return the supplied holder
          with the value in it; long random histories with many instances of all families alive at once."""
from ..common import chunks, finish, report, run_batches, tagged_values, verdict_of, write_ndjson
from ..problems_drv import ALL, CHEAP, ProblemRec, families, point_pool
from ..tlc import TLCError, require_ok, run_tlc

FAMILY = {"Pure", "PointModified", "HolderNotReturned", "HolderValue", "EvalRaises", "ConstructRaises"}


def reg_cfg(depth, emit, vals=(0,)):
    c = ["SPECIFICATION Spec", 'CONSTANT Fams = {"F1", "F2"}', "CONSTANT Members = {1, 2}", "CONSTANT Points = {1, 2, 3}",
         "CONSTANT Vals = {%s}" % ", ".join(str(v) for v in vals), "CONSTANT Depth = %d" % depth, "CONSTANT Emit = %s" % ("TRUE" if emit else "FALSE"),
         "INVARIANT MemoIsFunction", "CHECK_DEADLOCK FALSE"] + (["INVARIANT EmitHist"] if emit else ["PROPERTY Pure"])
    return "\n".join(c) + "\n"


def validate(ctx, recs, label, nch=None, truth=None):
    total = sum(len(r.events) for r in recs)
    nch = nch or max(1, min(12, total // 6000))
    jobs, metas = [], []
    for ci, ch in enumerate(chunks(recs, nch)):
        if truth is not None:
            ch = [truth] + list(ch)      # every file starts with the reference evaluations (each on an instance of its own)
        events = [e for r in ch for e in r.events]
        path = ctx.path("%s-%d.ndjson" % (label, ci))
        write_ndjson(path, events)
        jobs.append(lambda path=path: run_tlc("ProblemTrace", "SPECIFICATION Spec\nCHECK_DEADLOCK FALSE\n", env={"TRACE_FILE": path},
                                              workers=1, timeout=3000, xmx="4g"))
        metas.append((ch, len(events)))
    out = {"events": 0, "constructs": 0, "evals": 0, "repeats": 0, "keys": 0, "states": 0}
    fails = []
    for (ch, nev), res in zip(metas, run_batches(jobs)):
        v = verdict_of(res)
        if v is None or not res.ok or v["events"] != nev:
            raise TLCError("ProblemTrace gave no verdict:\n" + res.out[-2500:])
        out["events"] += nev
        out["states"] += res.distinct
        for k in ("constructs", "evals", "repeats", "keys"):
            out[k] += v["stats"][k]
        bytid = {r.tid: r for r in ch}
        for (tid, eid, clause) in v["failed"]:
            r = bytid[tid]
            fails.append({"clause": clause, "rec": r, "event": r.events[eid - 1]})
    return fails, out


def replay(hist, fmap, mmap, pools, tag, rng):
    """hist: TLC history over symbolic families F1/F2, members 1/2, points 1..3"""
    rec = ProblemRec(tag)
    for op in hist:
        if op[0] == "construct":
            rec.construct(fmap[op[1]], mmap[(op[1], op[2])], with_meta=False)
        else:
            fam, member, _ = rec.insts[op[1] - 1]
            rec.eval(op[1], pools[(fam, member)][op[2] - 1], reuse=rng.random() < 0.35, holder=rng.choice(["fresh", "fresh", "reused", "prefilled"]))
    return rec


def run(ctx):
    rng = ctx.rng
    qk = ctx.quick
    fams = families()
    depth = 4 if qk else 5
    gen = run_tlc("ProblemReg", reg_cfg(depth, True), workers=1, timeout=1500, xmx="6g")
    require_ok(gen, "ProblemReg history generation")
    hists = sorted({tuple(tuple(op) for op in h[0]) for h in tagged_values(gen.out, "HIST")}, key=repr)
    mc = run_tlc("ProblemReg", reg_cfg(depth, False, vals=(0, 1)), workers=4, timeout=1500, xmx="6g")
    require_ok(mc, "ProblemReg")
    recs = []
    pairs = [("Hill", "Shekel"), ("Rastrigin", "XSquared"), ("Shekel4", "StronginC3"), ("Hill", "Hill")] if qk else \
            [(a, b) for i, a in enumerate(CHEAP) for b in CHEAP[i:]]
    heavy = [("GKLS2", "GKLS3"), ("GKLS2", "Grishagin")] if qk else \
            [("GKLS2", "GKLS3"), ("GKLS5", "GKLS2"), ("GKLS4", "GKLS4"), ("GKLS3", "Grishagin"), ("Grishagin", "Grishagin"), ("GKLS2", "Hill"), ("Grishagin", "Shekel")]
    pools = {}
    used_pairs = []

    def setup(fa, fb):
        fmap = {"F1": fa, "F2": fb}
        mmap = {}
        for sym, fam in fmap.items():
            ms = fams[fam][1]
            picks = rng.sample(ms, 2) if len(ms) >= 2 else [ms[0], ms[0]]
            mmap[(sym, 1)], mmap[(sym, 2)] = picks
            for m in picks:
                if (fam, m) not in pools:
                    pools[(fam, m)] = point_pool(fam, m, fams[fam][0](m), 4, ctx.seed)
        return fmap, mmap

    for (fa, fb) in pairs:
        fmap, mmap = setup(fa, fb)
        hs = hists if not qk else rng.sample(hists, min(len(hists), 900))
        for h in hs:
            recs.append(replay(h, fmap, mmap, pools, "tlc-history %s/%s" % (fa, fb), rng))
        used_pairs.append((fa, fb, len(hs)))
    for (fa, fb) in heavy:
        fmap, mmap = setup(fa, fb)
        hs = rng.sample(hists, min(len(hists), 40 if qk else 400))
        for h in hs:
            recs.append(replay(h, fmap, mmap, pools, "tlc-history %s/%s" % (fa, fb), rng))
        used_pairs.append((fa, fb, len(hs)))
    # long random histories: many instances of all families alive at once, constraint functions of StronginC3 included
    for i in range(3 if qk else 40):
        rec = ProblemRec("random")
        for _ in range(60 if qk else 400):
            if not rec.insts or (len(rec.insts) < 14 and rng.random() < 0.18):
                fam = rng.choice(ALL if rng.random() < 0.5 else CHEAP)
                ms = fams[fam][1]
                m = rng.choice(ms[:6] if rng.random() < 0.7 else ms)      # a small set of members so that siblings of the same member meet
                rec.construct(fam, m, with_meta=False)
                if (fam, m) not in pools:
                    pools[(fam, m)] = point_pool(fam, m, rec.insts[-1][2], 4, ctx.seed)
            else:
                k = rng.randint(1, len(rec.insts))
                fam, m, _ = rec.insts[k - 1]
                fid = rng.choice(["obj", "obj", 0, 1, 2]) if fam == "StronginC3" else "obj"
                rec.eval(k, rng.choice(pools[(fam, m)]), fid, reuse=rng.random() < 0.35, holder=rng.choice(["fresh", "fresh", "reused", "prefilled"]),
                         rep=rng.choice(["f64", "f64", "f64", "list", "tuple", "ints", "int64"]))
        recs.append(rec)
    # the FIRST evaluation of a fresh instance is made with the point in another representation (list, tuple, ints / int64 for a
    # point with integral coordinates); every later value must still be the one the memo holds (a work buffer typed by the first call)
    for fam in (ALL if not qk else CHEAP + ["GKLS2", "Grishagin"]):
        ms = fams[fam][1]
        m = ms[0]
        for rep in ("ints", "int64", "list", "tuple"):
            rec = ProblemRec("first-representation")
            rec.construct(fam, m, with_meta=False)
            if (fam, m) not in pools:
                pools[(fam, m)] = point_pool(fam, m, rec.insts[-1][2], 4, ctx.seed)
            pool = pools[(fam, m)]
            integral = [pt for pt in pool if all(float(t).is_integer() for t in pt)]
            if not integral:
                p_ = rec.insts[-1][2]
                mid = [float(round((float(a) + float(b)) / 2)) for a, b in zip(p_.lowerBoundOfFloatVariables, p_.upperBoundOfFloatVariables)]
                if all(float(a) <= t <= float(b) for t, a, b in zip(mid, p_.lowerBoundOfFloatVariables, p_.upperBoundOfFloatVariables)):
                    integral = [mid]
            first = integral[0] if integral and rep in ("ints", "int64") else pool[-1]
            rec.eval(1, first, "obj", rep=rep)
            for pt in pool + [first]:
                rec.eval(1, pt, "obj", rep=rng.choice(["f64", "f64", "list"]))
            recs.append(rec)
    # integer lattice points of the box (several of them on ONE instance, in opposite orders on two siblings): coordinates such as
    # -1 and -2, 0 and -0.0, 1 and True-like values collide under careless keys (hash(-1) == hash(-2) in CPython)
    import itertools as _it
    for fam in (ALL if not qk else CHEAP + ["GKLS2", "Grishagin"]):
        m = fams[fam][1][0]
        rec = ProblemRec("lattice")
        rec.construct(fam, m, with_meta=False)
        rec.construct(fam, m, with_meta=False)
        p_ = rec.insts[-1][2]
        if p_ is None:
            continue
        los = [float(t) for t in p_.lowerBoundOfFloatVariables]
        ups = [float(t) for t in p_.upperBoundOfFloatVariables]
        per = [[float(v) for v in range(int(-(-a // 1)), int(b // 1) + 1)][:6] for a, b in zip(los, ups)]
        if any(not v for v in per):
            continue
        lattice = [[v[min(i, len(v) - 1)] for v in per] for i in range(max(len(v) for v in per))]
        lattice += [[rng.choice(v) for v in per] for _ in range(4)]
        if any(-0.0 in v or 0.0 in v for v in per):
            lattice.append([-0.0 if 0.0 in v else v[0] for v in per])
        # each lattice point first on an instance of its own (what a pure function returns), then all of them on one instance, in
        # opposite orders on a sibling
        distinct = [list(t) for t in sorted({tuple(pt) for pt in lattice})]
        for pt in distinct:
            k = rec.construct(fam, m, with_meta=False)
            rec.eval(k, pt, "obj")
        for pt in lattice:
            rec.eval(1, pt, "obj")
        for pt in reversed(lattice):
            rec.eval(2, pt, "obj")
        for pt in lattice:
            rec.eval(2, pt, "obj", rep=rng.choice(["f64", "ints", "list"]))
        recs.append(rec)
    # problems with several functions (StronginC3: objective + 3 constraints): every function at every pool point, in several
    # orders, on two sibling instances - a value must not depend on which OTHER function was evaluated at the point before
    fids = ["obj", 0, 1, 2]
    for rep in range(2 if qk else 8):
        rec = ProblemRec("all-functions")
        rec.construct("StronginC3", 0, with_meta=False)
        rec.construct("StronginC3", 0, with_meta=False)
        if ("StronginC3", 0) not in pools:
            pools[("StronginC3", 0)] = point_pool("StronginC3", 0, rec.insts[-1][2], 4, ctx.seed)
        for pt in pools[("StronginC3", 0)]:
            for k in (1, 2):
                order = fids[:]
                rng.shuffle(order)
                for fid in order:
                    rec.eval(k, pt, fid, reuse=rng.random() < 0.3, holder=rng.choice(["fresh", "reused", "prefilled"]))
        recs.append(rec)
    # reference values: every pool point (every function) evaluated once, as the FIRST evaluation of an instance of its own - the
    # memo of each trace file starts from these, so a value that is wrong but self-consistent on a long-lived instance is seen
    truth = ProblemRec("reference")
    for (fam, m), pool in sorted(pools.items(), key=repr):
        for pt in pool:
            for fid in (["obj", 0, 1, 2] if fam == "StronginC3" else ["obj"]):
                k = truth.construct(fam, m, with_meta=False)
                truth.eval(k, pt, fid)
    fails, stats = validate(ctx, recs, "c15", truth=truth)
    seen_fail = set()
    fails = [f for f in fails if not ((id(f["rec"]), f["event"]["id"], f["clause"]) in seen_fail or seen_fail.add((id(f["rec"]), f["event"]["id"], f["clause"])))]
    for f in fails:
        if f["clause"] in FAMILY:
            r, e = f["rec"], f["event"]
            fam, member, _ = r.insts[e["inst"] - 1]
            report(ctx, "C15 clause=%s family=%s%s" % (f["clause"], fam, " exc=" + e["raised"] if e.get("raised", "none") != "none" else ""),
                   {"clause": f["clause"], "family": fam, "member": member, "event": e, "history": [(x["op"], x.get("inst"), x.get("fam"), x.get("member")) for x in r.events[:e["id"]]][-30:]})
    cov = {
        "states": gen.distinct + mc.distinct + stats["states"], "transitions": gen.generated + mc.generated + stats["states"],
        "traces_validated_against_impl": len(recs),
        "samples": [{"tlc_history": [list(op) for op in hists[len(hists) // 2]]}, {"family_pairs": used_pairs[:6]}],
        "tlc_histories": len(hists), "history_depth": depth, "family_pairs": [(a, b) for a, b, _ in used_pairs],
        "constructions": stats["constructs"], "evaluations": stats["evals"], "evaluations_of_an_already_known_key": stats["repeats"],
        "distinct_keys": stats["keys"],
        "model_checking_configs": [{"module": "ProblemReg", "config": "2 families x 2 members x 3 points, depth %d, Vals={0,1}" % depth,
                                    "distinct": mc.distinct, "invariants": ["MemoIsFunction"], "properties": ["Pure"]}],
        "explanation": "all histories of constructions and evaluations up to the depth are enumerated by TLC and replayed for family pairs (incl. "
                       "several GKLS dimensions and Grishagin instances alive at once); ProblemTrace.tla keeps one memo per (family, member, "
                       "function, point) over all histories of a file and requires every evaluation to reproduce it bit for bit, leave the point "
                       "unchanged and return the supplied holder with the value stored in it",
    }
    return finish(ctx, "model_checking", cov, ["TLC 1.8 / CommunityModules; Q kernel; recorder copies values exactly",
                                               "points are taken from a fixed pool of 4 points per (family, member): declared optimum, a corner, interior points"])
