"""C19: the search-data containers act as an ordered set plus max-priority queues.
  MC   ContainersMC.tla: every operation history up to a depth over small alphabets, structural invariants in every state;
       negative control with wrong hints.
  GEN  every history of maximal depth TLC enumerates is replayed on the real SearchData / SearchDataDualQueue.
  TV   ContainersTrace.tla explains every recorded result by a set of candidate specification states (the DEPQ's choice
       among equal keys is unspecified) and checks the public observation (traversal, links, count, last) after each op;
       long random histories with random doubles incl. equal keys, bounded queues; CharacteristicsQueue on its own."""
import fractions

from ..common import chunks, finish, report, run_batches, tagged_values, unq, verdict_of, write_ndjson
from ..containers_drv import ContainerRec
from ..tlc import TLCError, require_ok, run_tlc

INVS = ["Structure", "FindOK", "MaxDefined"]


def mc_cfg(xs, ks, maxlen, dual, depth, wrong=False, emit=False, invs=INVS):
    c = ["SPECIFICATION Spec", "CONSTANT Xs = {%s}" % ", ".join('"%s"' % x for x in xs), "CONSTANT Ks = {%s}" % ", ".join('"%s"' % k for k in ks),
         'CONSTANT K0 = "%s"' % ks[0], "CONSTANT MaxLen = %d" % maxlen, "CONSTANT Dual = %s" % ("TRUE" if dual else "FALSE"),
         "CONSTANT Depth = %d" % depth, "CONSTANT WrongHints = %s" % ("TRUE" if wrong else "FALSE"), "CONSTANT Emit = %s" % ("TRUE" if emit else "FALSE"),
         "CONSTANT QueryEnds = %s" % ("TRUE" if depth <= 3 else "FALSE"),
         "CHECK_DEADLOCK FALSE"]
    c += ["INVARIANT %s" % i for i in invs] + (["INVARIANT EmitHist"] if emit else [])
    return "\n".join(c) + "\n"


def fl(s):
    return float("-inf") if s == "-inf" else float(unq(s))


def replay(hist, maxlen, dual, k0):
    rec = ContainerRec("dual" if dual else "sd", maxlen or None, tag="tlc-history")
    rec.new(0.0, float("-inf"), float("-inf"))
    rec.new(1.0, fl(k0), fl(k0))
    rec.insertfirst(1, 2)
    for op in hist:
        name = op[0]
        if name == "insert":
            i = rec.new(fl(op[1]), fl(op[2]), fl(op[3]))
            rec.insert(i, op[4])
        elif name == "setr":
            rec.setr(op[1], fl(op[2]), fl(op[3]))
        elif name == "clear":
            rec.clear()
        elif name == "refill":
            rec.refill()
        elif name == "maxg":
            rec.maxg()
        elif name == "maxl":
            rec.maxl()
        elif name == "find":
            rec.find(fl(op[1]))
    return rec


def random_history(rng, kind, maxlen, nops):
    rec = ContainerRec(kind, maxlen, tag="random")
    # few distinct keys -> many ties; with a bounded queue ties at the drop boundary multiply the candidate states the
    # specification has to follow, so tie-heavy bounded histories are kept short
    nk = rng.choice([2, 3, 6, 50])
    if maxlen and nk < 50:
        nops = min(nops, 40)
    keyset = [rng.uniform(-3, 3) for _ in range(nk)]
    key = lambda: rng.choice(keyset) if rng.random() < 0.8 else rng.uniform(-3, 3)    # noqa: E731
    # arbitrary end coordinates (the solver's are 0 and 1)
    lo = rng.choice([0.0, 0.0, -2.5, 0.25, 1000.0])
    hi = lo + rng.choice([1.0, 1.0, 3.0, 0.5])
    rec.new(lo, float("-inf"), float("-inf"))
    rec.new(hi, key(), key())
    rec.insertfirst(1, 2)
    xs = {lo, hi}
    inlist = [1, 2]
    for _ in range(nops):
        u = rng.random()
        if u < 0.45:
            x = rng.random() if rng.random() < 0.7 else rng.choice([2.0 ** -k for k in range(1, 30)] + [1 - 2.0 ** -k for k in range(2, 30)])
            x = lo + x * (hi - lo)
            if x in xs or not (lo < x < hi):
                continue
            xs.add(x)
            i = rec.new(x, key(), key())
            hint = 0
            if rng.random() < 0.6:
                right = min((j for j in inlist if rec.items[j - 1].GetX() > x), key=lambda j: rec.items[j - 1].GetX())
                hint = right
            rec.insert(i, hint)
            inlist.append(i)
        elif u < 0.6:
            i = rng.choice(inlist[1:])
            if rng.random() < 0.4:
                # the characteristic changes only in its last digits (relative 1e-9 .. 3e-6): still another value, the queued entry is stale
                it = rec.items[i - 1]
                tw = lambda v: v * (1.0 + rng.choice([1e-9, -1e-7, 1e-6, -3e-6])) if v not in (0.0, float("-inf")) else key()   # noqa: E731
                rec.setr(i, tw(float(it.globalR)), tw(float(it.localR)))
            else:
                rec.setr(i, key(), key())
        elif u < 0.78:
            rec.maxg()
        elif u < 0.86 and kind == "dual":
            rec.maxl()
        elif u < 0.9:
            rec.clear()
        elif u < 0.94:
            rec.refill()
        else:
            # inside, at a stored coordinate (also the first and the last), below the first and beyond the last item
            rec.find(rng.choice([lo + rng.random() * (hi - lo), rng.choice(sorted(xs)), lo, hi, lo - rng.choice([0.5, 1e-9, 100.0]), hi + rng.choice([0.5, 1e-9])]))
    return rec


def random_cq(rng, maxlen, nops):
    rec = ContainerRec("cq", maxlen, tag="random-cq")
    n = 0
    size = 0
    keyset = [rng.uniform(-3, 3) for _ in range(rng.choice([2, 4, 30]))] + [float("-inf")]
    for _ in range(nops):
        u = rng.random()
        if u < 0.55:
            i = rec.cq_new(rng.random()) if (n == 0 or rng.random() < 0.7) else rng.randint(1, n)
            n = max(n, i)
            rec.cq_insert(i, rng.choice(keyset))
            size = min(size + 1, maxlen or 10 ** 9)
        elif u < 0.92:
            if size > 0:
                rec.cq_best()
                size -= 1
        else:
            rec.cq_clear()
            size = 0
    return rec


def validate(ctx, recs, label):
    total = sum(len(r.events) for r in recs)
    nch = max(1, min(16, total // 4000)) if ctx.quick else max(1, min(64, total // 60000))      # thorough: files of about 60 000 events
    jobs, metas = [], []
    for ci, ch in enumerate(chunks(recs, nch)):
        events = [e for r in ch for e in r.events]
        path = ctx.path("%s-%d.ndjson" % (label, ci))
        write_ndjson(path, events)
        jobs.append(lambda path=path: run_tlc("ContainersTrace", "SPECIFICATION Spec\nCHECK_DEADLOCK FALSE\n", env={"TRACE_FILE": path},
                                              workers=1, timeout=900 if ctx.quick else 3400, xmx="4g" if ctx.quick else "6g"))
        metas.append((ch, len(events)))
    out = {"events": 0, "hist": 0, "ops": 0, "maxcands": 0, "ambiguous": 0, "states": 0, "abandoned": 0}
    fails = []
    for (ch, nev), res in zip(metas, run_batches(jobs)):
        v = verdict_of(res)
        if v is None or not res.ok or v["events"] != nev:
            try:
                import os
                from ..common import VERIF
                os.makedirs(os.path.join(VERIF, "out"), exist_ok=True)
                with open(os.path.join(VERIF, "out", "c19-tlc-output.txt"), "w") as fh:
                    fh.write(res.out)
            except Exception:       # noqa: BLE001
                pass
            raise TLCError("ContainersTrace gave no verdict (full TLC output: out/c19-tlc-output.txt):\n" + res.out[-2500:])
        out["events"] += nev
        out["states"] += res.distinct
        for k in ("hist", "ops", "ambiguous", "abandoned"):
            out[k] += v["stats"][k]
        out["maxcands"] = max(out["maxcands"], v["stats"]["maxcands"])
        bytid = {r.tid: r for r in ch}
        for (tid, eid, clause) in v["failed"]:
            r = bytid[tid]
            fails.append({"clause": clause, "rec": r, "event": r.events[eid - 1]})
    return fails, out


def run(ctx):
    rng = ctx.rng
    qk = ctx.quick
    xs3, xs4, ks2, ks3 = ["1/4", "1/2", "3/4"], ["1/8", "1/4", "1/2", "3/4"], ["1", "2"], ["1", "2", "3"]
    # ---- design level + history generation
    if qk:
        gens = [(xs3, ks2, 0, False, 3), (xs3, ks2, 2, False, 3), (xs3, ks2, 0, True, 2), (xs3, ks2, 2, True, 2)]
        mcs = [(xs4, ks2, 0, False, 3), (xs3, ks2, 2, True, 3)]
    else:
        gens = [(xs4, ks2, 0, False, 4), (xs3, ks3, 2, False, 3), (xs3, ks2, 3, False, 4), (xs3, ks2, 0, True, 3), (xs3, ks2, 2, True, 3)]
        mcs = [(xs4, ks3, 0, False, 4), (xs4, ks2, 2, False, 4), (xs4, ks2, 0, True, 4), (xs3, ks2, 2, True, 3), (xs3, ks2, 3, True, 3)]
    jobs = [lambda a=a: run_tlc("ContainersMC", mc_cfg(a[0], a[1], a[2], a[3], a[4], emit=True), workers=1, timeout=3000, xmx="6g") for a in gens]
    jobs += [lambda a=a: run_tlc("ContainersMC", mc_cfg(a[0], a[1], a[2], a[3], a[4]), workers=4, timeout=3000, xmx="8g", coverage=True) for a in mcs]
    jobs.append(lambda: run_tlc("ContainersMC", mc_cfg(xs3, ks2, 0, False, 3, wrong=True, invs=["Structure"]), workers=2, timeout=600))
    results = run_batches(jobs, max_workers=6)
    mc = {"states": 0, "transitions": 0, "configs": []}
    recs = []
    nhist = 0
    sample_hist = None
    for a, r in zip(gens, results[:len(gens)]):
        require_ok(r, "ContainersMC generation %s" % (a,))
        hs = {tuple(tuple(op) for op in h[0]) for h in tagged_values(r.out, "HIST")}
        nhist += len(hs)
        for h in sorted(hs, key=repr):
            recs.append(replay(h, a[2], a[3], a[1][0]))
        sample_hist = sample_hist or [list(op) for op in sorted(hs, key=repr)[len(hs) // 2]]
        mc["states"] += r.distinct
        mc["transitions"] += r.generated
        mc["configs"].append({"module": "ContainersMC", "config": "Xs=%s Ks=%s maxlen=%d dual=%s depth=%d (histories emitted)" % a,
                              "distinct": r.distinct, "histories": len(hs), "invariants": INVS})
    for a, r in zip(mcs, results[len(gens):len(gens) + len(mcs)]):
        require_ok(r, "ContainersMC %s" % (a,))
        cov = r.coverage()
        for act in ("DoInsert", "DoSetR", "DoClear", "DoRefill", "DoMaxG", "DoFind") + (("DoMaxL",) if a[3] else ()):
            if cov.get(act, (0, 0))[1] == 0:
                raise TLCError("vacuity: %s never taken in ContainersMC %s" % (act, a))
        mc["states"] += r.distinct
        mc["transitions"] += r.generated
        mc["configs"].append({"module": "ContainersMC", "config": "Xs=%s Ks=%s maxlen=%d dual=%s depth=%d" % a, "distinct": r.distinct,
                              "generated": r.generated, "invariants": INVS})
    neg = results[-1]
    if "Structure" not in neg.violated:
        raise TLCError("negative control: wrong hints should break the structure, TLC reported %s" % (neg.violated or "no error"))
    mc["configs"].append({"module": "ContainersMC", "config": "negative control WrongHints=TRUE", "refuted_invariant": "Structure", "distinct": neg.distinct})
    # ---- random long histories on the real classes
    nrand = 30 if qk else 400
    for i in range(nrand):
        kind = rng.choice(["sd", "dual", "dual"])
        maxlen = rng.choice([None, None, 2, 3, 5, 17])
        recs.append(random_history(rng, kind, maxlen, rng.choice([30, 120]) if qk else rng.choice([100, 300, 1000])))
    for i in range(10 if qk else 150):
        recs.append(random_cq(rng, rng.choice([None, 1, 2, 3, 8]), rng.choice([40, 200])))
    fails, stats = validate(ctx, recs, "c19")
    for f in fails:
        r = f["rec"]
        sig = "C19 clause=%s op=%s kind=%s maxlen=%s" % (f["clause"], f["event"]["op"], r.kind, r.events[0]["maxlen"])
        upto = [{k: v for k, v in e.items() if k != "obs"} for e in r.events[:f["event"]["id"]]][-40:]
        report(ctx, sig, {"clause": f["clause"], "event": f["event"], "history_before": upto, "origin": r.tag})
    cov = {
        "states": mc["states"] + stats["states"], "transitions": mc["transitions"] + stats["states"],
        "traces_validated_against_impl": stats["hist"],
        "samples": [{"tlc_history": sample_hist}, {"random_history_ops": [e["op"] for e in recs[-1].events[:25]]}],
        "tlc_histories_replayed": nhist, "operations_validated": stats["ops"], "events_validated": stats["events"],
        "max_candidate_states": stats["maxcands"], "histories_abandoned_as_too_ambiguous": stats["abandoned"], "operations_with_ambiguous_ties": stats["ambiguous"],
        "model_checking_configs": mc["configs"],
        "explanation": "all operation histories up to the configured depth over small alphabets are explored by TLC with the structural invariants "
                       "checked in every state; every history of maximal depth is replayed on the real classes; long random histories (random "
                       "doubles, many equal keys, bounded queues, hints, re-assigned characteristics) and the stand-alone queue are recorded; "
                       "ContainersTrace.tla must explain every returned item by a maximal (dual: maximal current) queue entry and every observation "
                       "(traversal order, links, count, last, covering-interval lookup) by the specification state",
    }
    return finish(ctx, "model_checking", cov, [
        "TLC 1.8 / CommunityModules; Q kernel; recorder copies observable results (object identities as creation ordinals)",
        "preconditions of the property: distinct coordinates strictly between the two end items, a hint is the true right neighbour, "
        "InsertFirstDataItem first; keys are finite doubles or -inf"])
