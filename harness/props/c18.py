"""C18: problem metadata is well-formed; the published Hill / Shekel tables agree with the functions.
  metadata  every member of every family is constructed on the real classes and its public fields are checked by TLC
            (ProblemTrace.tla: MetaDimension, MetaBounds, MetaObjectives, MetaOptimumInBox).
  tables    for each of the 2 x 1000 rows an (untrusted) search builds a certificate from values observed through
            Problem.Calculate; Cert1D.tla derives the derivative bounds from the shipped coefficient tables and checks in
            exact arithmetic that the minimum / maximum value and location and the Lipschitz constant are within the
            property's tolerances - or that a refutation holds.  Corrupted rows (binding demonstration) must be refuted."""
import multiprocessing as mp

from ..common import chunks, finish, report, run_batches, tagged_values, write_ndjson
from ..problems_drv import ProblemRec, families
from ..tlc import TLCError, run_tlc
from .c15 import validate as validate_problem_trace

META = {"MetaDimension", "MetaBounds", "MetaObjectives", "MetaOptimumInBox", "ConstructRaises"}
TV, DELTA_REL, REL = 1e-4, 1e-4, 1e-3


def _build(args):
    from ..cert1d import build_record
    tid, fam, fn, tv, drel, rel, parts, tables = args[:8]
    kw = args[8] if len(args) > 8 else {}
    r = build_record(tid, fam, fn, tv, drel, rel, parts, tables, **kw)
    return r


def build_all(jobs, procs=16):
    if len(jobs) <= 4:
        return [_build(j) for j in jobs]
    with mp.get_context("fork").Pool(min(procs, len(jobs))) as pool:
        return pool.map(_build, jobs, chunksize=max(1, len(jobs) // (procs * 4)))


def check_certificates(ctx, recs, label):
    nch = max(1, min(16, len(recs) // 12))
    jobs, metas = [], []
    for ci, ch in enumerate(chunks(recs, nch)):
        path = ctx.path("%s-%d.ndjson" % (label, ci))
        write_ndjson(path, [{k: v for k, v in r.items() if not k.startswith("_")} for r in ch])
        jobs.append(lambda path=path: run_tlc("Cert1D", "SPECIFICATION Spec\nCHECK_DEADLOCK FALSE\n", env={"TRACE_FILE": path}, workers=1,
                                              timeout=3400, xmx="4g"))
        metas.append(ch)
    verdicts = {}
    states = 0
    for ch, res in zip(metas, run_batches(jobs)):
        vs = tagged_values(res.out, "CERT")
        if not res.ok or len(vs) != len(ch):
            raise TLCError("Cert1D produced %d of %d verdicts:\n%s" % (len(vs), len(ch), res.out[-2500:]))
        states += res.distinct
        for (v,) in vs:
            verdicts[v["tid"]] = v
    return verdicts, states


def corrupt_rows(rng):
    """table rows edited beyond the tolerance: the check must refute each (binding demonstration)"""
    from ..cert1d import tables_of
    out = []
    for fam, rng_x in (("Hill", 1.0), ("Shekel", 10.0)):
        fn = rng.randrange(1000)
        tmin, tmax, tl = tables_of(fam, fn)
        out.append((fam, fn, ([tmin[0] + 3e-4, tmin[1]], tmax, tl), ("min",), ("min", "value"), "minimum value + 3e-4"))
        out.append((fam, fn, ([tmin[0], tmin[1] + 3e-4 * rng_x], tmax, tl), ("min",), ("min", "location"), "minimum location + 3e-4 of the range"))
        out.append((fam, fn, (tmin, [tmax[0] - 3e-4, tmax[1]], tl), ("max",), ("max", "value"), "maximum value - 3e-4"))
        out.append((fam, fn, (tmin, tmax, tl * 1.004), ("lip",), ("lip", "lip"), "Lipschitz constant x 1.004"))
        out.append((fam, fn, (tmin, tmax, tl * 0.996), ("lip",), ("lip", "lip"), "Lipschitz constant x 0.996"))
    return out


def run(ctx):
    rng = ctx.rng
    qk = ctx.quick
    fams = families()
    # ---- metadata of every member
    rec = ProblemRec("metadata")
    plan = []
    for fam, (_, members) in fams.items():
        ms = list(members)
        if qk and fam == "Grishagin":
            ms = sorted(set(rng.sample(ms, 28)) | {ms[0], ms[-1], ms[9], ms[-2]})      # both ends of the family always (off-by-one at a table end)
        plan += [(fam, m) for m in ms]
    rng.shuffle(plan)            # construction order matters for state shared between instances
    for fam, m in plan:
        rec.construct(fam, m, with_meta=True)
    mfails, mstats = validate_problem_trace(ctx, [rec], "c18meta", nch=1)
    for f in mfails:
        if f["clause"] in META:
            e = f["event"]
            report(ctx, "C18 clause=%s family=%s member=%s" % (f["clause"], e["fam"], e["member"]), {"clause": f["clause"], "event": e})
    # ---- tables
    rows = [("Hill", k) for k in range(1000)] + [("Shekel", k) for k in range(1000)]
    jobs = [(i + 1, fam, fn, TV, DELTA_REL, REL, ("min", "max", "lip"), None) for i, (fam, fn) in enumerate(rows)]
    corrupt = corrupt_rows(rng)
    cjobs = [(100000 + i, fam, fn, TV, DELTA_REL, REL, parts, tables) for i, (fam, fn, tables, parts, _, _) in enumerate(corrupt)]
    recs = build_all(jobs + cjobs)
    verdicts, states = check_certificates(ctx, recs, "c18cert")
    counts = {"ok": 0, "undecided": 0, "violated": 0}
    undecided = []
    for (tid, fam, fn, *_r) in jobs:
        v = verdicts[tid]
        for part, keys in (("min", ("value", "location")), ("max", ("value", "location")), ("lip", ("lip",))):
            for k in keys:
                s = v[part][k]
                counts[s] += 1
                if s == "violated":
                    report(ctx, "C18 table=%s/%s family=%s row=%d" % (part, k, fam, fn),
                           {"family": fam, "row": fn, "table": part, "clause": k, "verdict": v[part], "tolerances": {"value": TV, "location_rel": DELTA_REL, "lipschitz_rel": REL}})
                elif s == "undecided":
                    undecided.append((fam, fn, part, k, v[part].get("why")))
    for i, (fam, fn, tables, parts, (part, key), what) in enumerate(corrupt):
        v = verdicts[100000 + i]
        if v[part][key] != "violated":
            raise TLCError("binding demonstration failed: %s row %d with %s was judged %r" % (fam, fn, what, v[part]))
    ncells = sum(verdicts[j[0]][p]["cells"] for j in jobs for p in ("min", "max", "lip"))
    cov = {
        "explanation": "metadata: every member of every family constructed and its public fields checked by TLC; tables: per row a certificate built from "
                       "values observed through Calculate is checked by Cert1D.tla with derivative bounds derived in exact arithmetic from the shipped "
                       "coefficient tables (global minimum/maximum value within 1e-4, location within 1e-4 of the range via convexity or end-point "
                       "monotonicity + a covering that excludes every other cell, Lipschitz constant within 0.1% via a mean-value witness and a cell-wise "
                       "upper bound of |f'|); deliberately corrupted rows must be refuted",
        "evaluations": len(plan) + len(rows), "distinct_nontrivial": len(plan) + len(rows),
        "rule": "one case per constructed family member (metadata) and per table row (three tables); all distinct",
        "samples": [{"row": [rows[0][0], rows[0][1]], "verdict": verdicts[1]}, {"corrupted_row": corrupt[1][5], "verdict": verdicts[100001]["min"]}],
        "members_constructed": len(plan), "table_rows_certified": len(rows), "clause_verdicts": counts, "undecided": undecided[:20],
        "certificate_cells_checked": ncells, "objective_evaluations_for_certificates": sum(r.get("_evals", 0) for r in recs),
        "corrupted_rows_refuted": len(corrupt), "states": states + mstats["states"],
        "exhaustive": not qk,
    }
    return finish(ctx, "other", cov, [
        "the derivative bounds hold for the formulas built from the shipped coefficient tables; the code is tied to the formula through the observed "
        "values (each observed value is allowed a rounding error of 1e-11)",
        "sample abscissae are the doubles nearest to the cell midpoints m and m -+ h",
        "the certificate search is untrusted: it can only cause 'undecided', never acceptance of a wrong row"])
