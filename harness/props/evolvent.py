"""C07 / C08 / C09: the evolvent.  Exhaustive runs of EvolventAuto / EvolventMC (all densities via the
orientation automaton; outright on small grids) plus trace validation of the real Evolvent object."""
import itertools
import math
import os

from ..common import chunks, finish, report, run_batches, verdict_of, write_ndjson
from ..tlc import TLCError, require_ok, run_tlc

AUTO_INVS = {"C07": ["TypeOK", "Bij", "ReachAgrees"], "C08": ["TypeOK", "Gray", "Adj"], "C09": ["TypeOK", "Inv"],
             "C05": ["TypeOK", "Bij"], "C20": ["TypeOK", "Bij"]}      # C05/C20: every image is a cell centre strictly inside the cube
MC_INVS = {"C07": ["InGrid", "Agrees", "RoundTrip", "PairsOK"], "C08": ["InGrid", "PairsOK"],
           "C09": ["InGrid", "Agrees", "RoundTrip"], "C05": ["InGrid", "Agrees"], "C20": ["InGrid", "Agrees"]}


def model_check(ctx, pid):
    """Design-level runs; a failure here is a machinery/spec problem (exit 2), never a VIOLATION."""
    stats = {"states": 0, "transitions": 0, "configs": []}
    jobs = []
    for n in (2, 3, 4, 5):
        cfg = "SPECIFICATION Spec\nCONSTANT N = %d\n" % n + "".join("INVARIANT %s\n" % i for i in AUTO_INVS[pid])
        jobs.append(("EvolventAuto N=%d" % n,
                     lambda cfg=cfg: run_tlc("EvolventAuto", cfg, workers=2, timeout=600, coverage=True)))
    if ctx.quick:
        mcs = [(2, 4), (3, 2), (3, 3), (4, 2), (5, 2), (2, 8), (4, 4), (5, 3)] if pid != "C09" else [(2, 5), (3, 3), (4, 2), (5, 2), (2, 8), (3, 5), (4, 4), (5, 3)]
    else:
        mcs = [(2, 5), (2, 6), (3, 3), (3, 4), (4, 2), (4, 3), (5, 2)]
        if pid != "C08":
            mcs += [(2, 8), (3, 5), (4, 4), (5, 3), (2, 10), (3, 6), (4, 5), (5, 4)]
    for (n, m) in mcs:
        pairs = pid in ("C07", "C08") and n * m <= (10 if ctx.quick else 12)
        cfg = ("SPECIFICATION Spec\nCONSTANT N = %d\nCONSTANT M = %d\nCONSTANT CheckPairs = %s\nCHECK_DEADLOCK FALSE\n"
               % (n, m, "TRUE" if pairs else "FALSE")) + "".join("INVARIANT %s\n" % i for i in MC_INVS[pid])
        jobs.append(("EvolventMC N=%d M=%d pairs=%s" % (n, m, pairs),
                     lambda cfg=cfg: run_tlc("EvolventMC", cfg, workers=4, timeout=3000, xmx="6g")))
    results = run_batches([j[1] for j in jobs], max_workers=6)
    for (name, _), r in zip(jobs, results):
        require_ok(r, name)
        stats["states"] += r.distinct
        stats["transitions"] += r.generated
        c = {"config": name, "distinct": r.distinct, "generated": r.generated}
        cov = r.coverage()
        if cov:
            c["actions"] = {k: v[1] for k, v in cov.items()}
            for act in ("ReachStep", "Fork", "PairStep"):
                if name.startswith("EvolventAuto") and cov.get(act, (0, 0))[1] == 0:
                    raise TLCError("vacuity: action %s never taken in %s" % (act, name))
        for ln in r.out.splitlines():
            if ln.startswith("<<\"EvolventMC\", \"pairs\""):
                c["pairs_checked"] = int(ln.rstrip(">").split(",")[-1])
            if ln.startswith("<<\"EvolventAuto\""):
                c["reach"] = int(ln.rstrip(">").split(",")[-1])
        stats["configs"].append(c)
    return stats


# ------------------------------------------------------------------ scenarios for the real object
def scenarios(ctx, pid):
    """Returns {N: [events]} recorded from the real Evolvent."""
    from ..evolvent_drv import EvoRecorder, nest_event, rand_box, special_xs
    rng = ctx.rng
    idgen = itertools.count(1)
    byn = {n: [] for n in range(1, 6)}
    scale = 1 if ctx.quick else 8

    def recorder(n, m, ev, rebound=None):
        lo, up = rand_box(rng, n)
        rb = rand_box(rng, n) if (rebound if rebound is not None else rng.random() < 0.25) else None
        return EvoRecorder(n, m, lo, up, ev, idgen, rebound_from=rb)

    # construction order matters for state shared between instances (tables sized by the first object
    # built, class-level caches): descending dimension first, then a seeded shuffle
    order = [5, 4, 3, 2, 1] if ctx.seed % 2 == 0 else rng.sample(range(1, 6), 5)
    for n in order:
        ev = byn[n]
        if n == 1:
            for _ in range(6 * scale):
                m = rng.randint(2, 20)
                r = recorder(1, m, ev)
                for x in special_xs(rng, 1, m, 12):
                    if pid in ("C07",):
                        r.image(x)
                    if pid == "C09":
                        r.roundtrip(x)
                if pid == "C09":
                    for _ in range(12):
                        y = [rng.uniform(r.lo[0], r.up[0])]
                        r.inverse(y, via=rng.choice(["inv", "pre"]), arg=rng.choice(["array", "list", "tuple"]))
                    r.inverse([r.lo[0]]), r.inverse([r.up[0]])
            continue
        # (a) every subinterval of small grids: left end, an interior point, the last double before the right end
        small = [m for m in range(1, 8) if n * m <= (10 if ctx.quick else 14)]
        rng.shuffle(small)      # density order matters for caches shared between objects
        for m in small:
            r = recorder(n, m, ev)
            nm = n * m
            tot = 2 ** nm
            idx = range(tot) if tot <= 1024 or not ctx.quick else sorted(rng.sample(range(tot), 1024))
            for i in idx:
                xl = i / tot
                xr = math.nextafter((i + 1) / tot, 0.0)
                xm = xl + (xr - xl) * rng.random()
                if pid == "C07":
                    r.image(xl), r.image(xm), r.image(xr)
                elif pid == "C08":
                    if i + 1 < tot:
                        r.adjacent(i)
                else:
                    r.roundtrip(rng.choice([xl, xm, xr]), via=rng.choice(["inv", "pre"]))
            if pid == "C07":
                r.image(1.0)
            if pid == "C09":
                r.roundtrip(1.0)
        # (b) larger densities (N*m <= 50): stress points
        ms = sorted(set([2, 10] + [rng.randint(2, 50 // n) for _ in range(3 * scale)] + [50 // n, max(2, 40 // n), max(2, 30 // n + 1)]))
        ms = ms[::-1] if rng.random() < 0.5 else rng.sample(ms, len(ms))
        for m in ms:
            if n * m > 50 or m < 1:
                continue
            r = recorder(n, m, ev)
            xs = special_xs(rng, n, m, 40 * scale)
            # the two ends of [0, 1], always: the first subintervals and the last few dozen (whatever is special about x near 0 or near 1 -
            # end-point tests with a tolerance, the last digit - shows there and only there)
            tot = 2 ** (n * m)
            ends = [i for i in list(range(0, 6)) + list(range(tot - 40, tot)) if 0 <= i < tot]
            for i in sorted(set(ends)):
                xl, xr = i / tot, math.nextafter((i + 1) / tot, 0.0)
                if pid == "C07":
                    r.image(xl), r.image(xr)
                elif pid == "C08":
                    if i + 1 < tot:
                        r.adjacent(i)
                elif pid == "C09":
                    r.roundtrip(rng.choice([xl, xr]), via=rng.choice(["inv", "pre"]))
            if pid == "C07":
                for x in xs:
                    r.image(x)
                # the same x queried again after SetBounds on the same object (stale caches)
                x = rng.choice(xs)
                r.image(x)
                lo2, up2 = rand_box(rng, n)
                r.set_bounds(lo2, up2)
                r.image(x)
                for x in rng.sample(xs, min(10, len(xs))):
                    r.image(x)
            elif pid == "C08":
                nm = n * m
                for x in xs[: 10 * scale]:
                    nest_event(n, m, r.lo, r.up, x, ev, idgen) if n * (m + 1) <= 50 else None
                for _ in range(30 * scale):
                    # consecutive subintervals around boundaries of coarse levels (where a continuity slip shows)
                    j = rng.randint(1, m)
                    k = rng.randrange(1, 2 ** min(n * j, 50))
                    i = k * 2 ** (nm - n * j) - 1
                    if rng.random() < 0.3:
                        i = rng.randrange(0, 2 ** nm - 1)
                    if 0 <= i < 2 ** nm - 1:
                        r.adjacent(i)
                for _ in range(30 * scale):
                    x1 = rng.choice(xs)
                    d = rng.choice([2.0 ** -nm, 2.0 ** -nm * rng.uniform(1, 4), rng.random() * 2.0 ** -rng.randint(1, nm), rng.random()])
                    x2 = min(1.0, x1 + d) if rng.random() < 0.5 else max(0.0, x1 - d)
                    r.pair(x1, x2)
                # same subinterval queried twice in a row, then a neighbour (stale "same cell" shortcuts)
                x1 = rng.choice(xs[6:])
                r.pair(x1, x1)
                i = int(x1 * 2 ** min(nm, 50))
                if nm <= 50 and 0 < i < 2 ** nm - 1:
                    r.image(x1, log=False)
                    r.adjacent(i)
            else:
                for x in xs[: 25 * scale]:
                    r.roundtrip(x, via=rng.choice(["inv", "pre"]))
                for _ in range(25 * scale):
                    y = [rng.uniform(a, b) for a, b in zip(r.lo, r.up)]
                    r.inverse(y, via=rng.choice(["inv", "pre"]), arg=rng.choice(["array", "list", "tuple"]))
                # points with integer coordinates passed as ints (lists, tuples, integer arrays): the same point, another dtype
                ints = [[float(t) for t in p] for p in itertools.product(*[range(int(math.ceil(a)), int(math.floor(b)) + 1)[:3] for a, b in zip(r.lo, r.up)])][:6]
                for y in ints:
                    r.inverse(y, via=rng.choice(["inv", "pre"]), arg=rng.choice(["intlist", "int64", "int32"]))
                    r.inverse(y, via="inv", arg="array")
                # corners and centre of the box, cell-centre points
                r.inverse(list(r.lo)), r.inverse(list(r.up))
                r.inverse([(a + b) / 2 for a, b in zip(r.lo, r.up)])
                # rebinding the box (centre and width change) before inverse queries
                lo2, up2 = rand_box(rng, n)
                r.set_bounds(lo2, up2)
                for _ in range(8):
                    y = [rng.uniform(a, b) for a, b in zip(r.lo, r.up)]
                    r.inverse(y, via=rng.choice(["inv", "pre"]))
                    r.roundtrip(rng.choice(xs))
    return byn


def validate(ctx, pid, byn):
    """Run EvolventTrace over the recorded events (one JVM per chunk); collect verdicts."""
    jobs, meta = [], []
    total = sum(len(v) for v in byn.values())
    for n, events in byn.items():
        if not events:
            continue
        nchunks = max(1, min(8, len(events) // 1500)) if not ctx.quick else max(1, min(4, len(events) // 1500))
        for ci, ch in enumerate(chunks(events, nchunks)):
            path = ctx.path("evo-%s-N%d-%d.ndjson" % (pid, n, ci))
            write_ndjson(path, ch)
            cfg = "SPECIFICATION Spec\nCONSTANT N = %d\nCHECK_DEADLOCK FALSE\n" % n
            track = "1" if (pid == "C07" and ci == 0) else "0"
            jobs.append(lambda path=path, cfg=cfg, track=track: run_tlc(
                "EvolventTrace", cfg, env={"TRACE_FILE": path, "TRACK_COV": track}, workers=1, timeout=3000, xmx="3g"))
            meta.append((n, ci, ch))
    results = run_batches(jobs, max_workers=16)
    out = {"events": total, "by_n": {}, "transitions_covered": {}, "states": 0}
    for (n, ci, ch), r in zip(meta, results):
        v = verdict_of(r)
        if v is None or not r.ok:
            raise TLCError("EvolventTrace produced no verdict for N=%d chunk %d:\n%s" % (n, ci, r.out[-1500:]))
        if v["events"] != len(ch):
            raise TLCError("EvolventTrace consumed %d of %d events" % (v["events"], len(ch)))
        out["states"] += r.distinct
        out["by_n"][n] = out["by_n"].get(n, 0) + len(ch)
        if v["transitions"]:
            out["transitions_covered"][n] = [v["transitions"], v["alltransitions"]]
        byid = {e["id"]: e for e in ch}
        for (eid, clause) in v["failed"]:
            e = byid[eid]
            sig = "%s clause=%s op=%s N=%d m=%d" % (pid, clause, e["op"], n, e["m"])
            report(ctx, sig + " " + str(e.get("xf", e.get("i", ""))), {"clause": clause, "event": e})
        if v["nfail"] and not v["failed"]:
            raise TLCError("inconsistent verdict")
    return out


def run(ctx):
    pid = ctx.pid
    mc = model_check(ctx, pid)
    byn = scenarios(ctx, pid)
    tv = validate(ctx, pid, byn)
    sample_events = []
    for n in (2, 3, 5):
        if byn.get(n):
            e = dict(byn[n][len(byn[n]) // 2])
            sample_events.append(e)
    coverage = {
        "states": mc["states"] + tv["states"], "transitions": mc["transitions"] + tv["states"],
        "traces_validated_against_impl": tv["events"],
        "samples": sample_events,
        "exhaustive": True,
        "model_checking_configs": mc["configs"],
        "trace_events_by_dimension": tv["by_n"],
        "automaton_transitions_exercised_on_impl": tv["transitions_covered"],
        "explanation": "EvolventAuto explored exhaustively for N=2..5 (decides the property for every density); "
                       "EvolventMC explored exhaustively on the listed small grids; every recorded query of the real "
                       "Evolvent object validated by EvolventTrace (TLC recomputes the cell from the exact digits of x).",
    }
    return finish(ctx, "model_checking", coverage, [
        "TLC 1.8, SANY, CommunityModules; Q kernel (Java BigInteger, self-tested by QSelfTest.tla)",
        "trace recorder copies observable values only; doubles encoded exactly as rationals",
        "boxes generated with width >= 2^-10 of the coordinate magnitudes; N*m <= 50",
        "tolerance of comparisons with exact values: 2^-40 * (|lower|+|upper|) + 2^-44 (DESIGN 2.2)",
    ])
