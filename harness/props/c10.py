"""C10: the declared optimum of every benchmark instance is its true global minimum.
Every family is decided by a TLC-checked certificate (the continuum cannot be sampled):
  Hill, Shekel       Cert1D.tla (value within 1e-4 at the declared point, nothing lower than f* - 2e-3 max(1,|f*|), every global
                     minimiser within 0.5% of the range of the declared point) with the optimum the problem object declares
  GKLS               GKLSSpec.tla: -1 at the global minimiser is the minimum over the box, decided from the parameters by four
                     rational inequalities per basin + the paraboloid outside; Calculate tied to the case analysis point-wise
  XSquared           Bench.tla: sum of squares, exact
  Rastrigin          Bench.tla: separability on observed values + Cert1D.tla certificate of the one-dimensional function
  Shekel4            Bench.tla: exact interval lower bounds on the leaves of a branch-and-bound tree tiling [0,10]^4
  Grishagin, StronginC3   BoxCert2D.tla (second-order cell bounds for trigonometric polynomials) - see coverage"""
from ..bench_drv import rastrigin_record, shekel4_record, xsquared_record
from ..common import finish, report, run_batches, tagged_values, write_ndjson
from ..gkls_drv import build_record as gkls_record, load_golden
from ..tlc import TLCError, run_tlc
from .c14 import check as check_gkls
from .c18 import build_all, check_certificates

TV, TVLOW_REL, DELTA_REL = 1e-4, 2e-3, 5e-3
GKLS_CLAUSES = {"BasinBelowItsMinimum", "OtherMinimaNotHigher", "GlobalValue", "DeclaredOptimum", "ValueAtMinimiser", "ParaboloidOutside",
                "CubicInside", "BallsOverlap", "MinimisersInBox", "Malformed", "EvaluationRaises", "RadiusNotPositive"}


def run(ctx):
    rng = ctx.rng
    qk = ctx.quick
    counts = {"ok": 0, "undecided": 0, "violated": 0}
    undecided = []
    instances = {}
    # ---- screen: every member in scope is constructed and evaluated at its declared optimum and at the centre of its box; a member whose
    # evaluation raises or is not finite is a verdict of ProblemTrace.tla (clause EvalRaises) and is left out of the certificate searches
    from ..problems_drv import ProblemRec, families
    from .c15 import validate as validate_problems
    fams = families()
    screen = ProblemRec("c10-screen")
    screened_out = set()
    for fam in sorted(fams):
        for m in fams[fam][1]:
            k = screen.construct(fam, m, with_meta=False)
            p_ = screen.insts[-1][2]
            if p_ is None:
                screened_out.add((fam, m))
                continue
            try:
                opt = [float(t) for t in p_.knownOptimum[0].point.floatVariables]
                mid = [(float(a) + float(b)) / 2 for a, b in zip(p_.lowerBoundOfFloatVariables, p_.upperBoundOfFloatVariables)]
            except Exception:      # noqa: BLE001
                screened_out.add((fam, m))
                continue
            for pt in (opt, mid):
                screen.eval(k, pt, "obj")
            screen.insts[-1] = (fam, m, "evaluated")       # (the object itself is not kept alive: thousands of members)
    sfails, _sstats = validate_problems(ctx, [screen], "c10screen")
    for f in sfails:
        if f["clause"] in ("EvalRaises", "ConstructRaises"):
            fam, m, _ = screen.insts[f["event"]["inst"] - 1]
            if (fam, m) not in screened_out:
                screened_out.add((fam, m))
        if f["clause"] in ("EvalRaises", "ConstructRaises", "HolderNotReturned", "PointModified"):
            fam, m, _ = screen.insts[f["event"]["inst"] - 1]
            report(ctx, "C10 family=%s member=%d clause=EvaluationRaises" % (fam, m),
                   {"family": fam, "member": m, "clause": f["clause"], "event": {k_: v_ for k_, v_ in f["event"].items() if k_ != "meta"}})
    # ---- Hill, Shekel (and the one-dimensional Rastrigin function)
    rows = [(f_, k) for f_ in ("Hill", "Shekel") for k in range(1000) if (f_, k) not in screened_out]
    jobs = [(i + 1, fam, fn, TV, DELTA_REL, 1e-3, ("min",), None, {"tvlow_rel": TVLOW_REL, "declared": True}) for i, (fam, fn) in enumerate(rows)]
    jobs.append((900001, "Rastrigin", 1, TV, DELTA_REL, 1e-3, ("min",), None, {"tvlow_rel": TVLOW_REL}))
    # binding demonstration: a declared optimum moved by 1% of the range / lowered by 5e-3 must be refuted
    from ..cert1d import tables_of
    tmin, tmax, tl = tables_of("Hill", 7)
    jobs.append((900002, "Hill", 7, TV, DELTA_REL, 1e-3, ("min",), ([tmin[0], tmin[1] + 0.01], tmax, tl), {"tvlow_rel": TVLOW_REL}))
    tmin2, tmax2, tl2 = tables_of("Shekel", 7)
    jobs.append((900003, "Shekel", 7, TV, DELTA_REL, 1e-3, ("min",), ([tmin2[0] + 5e-3, tmin2[1]], tmax2, tl2), {"tvlow_rel": TVLOW_REL}))
    recs = build_all(jobs)
    verdicts, states = check_certificates(ctx, recs, "c10cert")
    if verdicts[900002]["min"]["location"] != "violated" or verdicts[900003]["min"]["value"] != "violated":
        raise TLCError("binding demonstration failed: %s / %s" % (verdicts[900002]["min"], verdicts[900003]["min"]))
    for (tid, fam, fn, *_r) in jobs[:len(rows) + 1]:
        v = verdicts[tid]["min"]
        instances[fam] = instances.get(fam, 0) + 1
        for k in ("value", "location"):
            counts[v[k]] += 1
            if v[k] == "violated":
                report(ctx, "C10 family=%s member=%d clause=%s" % (fam, fn, k), {"family": fam, "member": fn, "clause": k, "verdict": v})
            elif v[k] == "undecided":
                undecided.append((fam, fn, k, v.get("why")))
    ras1d_ok = verdicts[900001]["min"]["value"] == "ok" and verdicts[900001]["min"]["location"] == "ok"
    # ---- GKLS
    fns = [(d, k) for d in (2, 3, 4, 5) for k in range(1, 101)]
    if qk:
        fns = [(d, k) for d in (2, 3, 4, 5) for k in rng.sample(range(1, 101), 12)]
    fns = [(d, k) for (d, k) in fns if ("GKLS%d" % d, k) not in screened_out]
    grecs = [gkls_record(d, k, rng, None, npts=10) for (d, k) in fns]
    for v in check_gkls(ctx, grecs, "c10gkls"):
        instances["GKLS"] = instances.get("GKLS", 0) + 1
        bad = sorted(set(v["failed"]) & GKLS_CLAUSES)
        counts["ok" if not bad else "violated"] += 2
        for cl in bad:
            report(ctx, "C10 family=GKLS dim=%d clause=%s" % (v["dim"], cl), {"family": "GKLS", "dimension": v["dim"], "number": v["nf"], "clause": cl})
    # ---- XSquared, Rastrigin, Shekel4
    brecs = [xsquared_record(n, rng) for n in range(1, 9) if ("XSquared", n) not in screened_out] + \
            [rastrigin_record(n, rng) for n in range(1, 9) if ("Rastrigin", n) not in screened_out] + [shekel4_record(k, rng) for k in (1, 2, 3) if ("Shekel4", k) not in screened_out]
    path = ctx.path("c10bench.ndjson")
    write_ndjson(path, [{k: v for k, v in r.items() if not k.startswith("_")} for r in brecs])
    res = run_tlc("Bench", "SPECIFICATION Spec\nCHECK_DEADLOCK FALSE\n", env={"TRACE_FILE": path}, workers=1, timeout=3000, xmx="4g")
    bv = [v[0] for v in tagged_values(res.out, "BENCH")]
    if not res.ok or len(bv) != len(brecs):
        raise TLCError("Bench produced %d of %d verdicts:\n%s" % (len(bv), len(brecs), res.out[-2500:]))
    leaves = 0
    for v in bv:
        fam = {"xsquared": "XSquared", "rastrigin": "Rastrigin", "shekel4": "Shekel4"}[v["kind"]]
        instances[fam] = instances.get(fam, 0) + 1
        leaves += v["leaves"]
        failed = set(v["failed"])
        if fam == "Rastrigin" and not ras1d_ok:
            undecided.append(("Rastrigin", v["id"], "one-dimensional certificate", verdicts[900001]["min"].get("why")))
            counts["undecided"] += 2
        else:
            counts["ok" if not failed else "violated"] += 2
        for cl in sorted(failed):
            report(ctx, "C10 family=%s member=%d clause=%s" % (fam, v["id"], cl), {"family": fam, "member": v["id"], "clause": cl})
    # ---- Grishagin, StronginC3
    from .c10_2d import run_2d
    try:
        two = run_2d(ctx, counts, undecided, instances)
    except TLCError:
        raise
    except Exception as ex:      # noqa: BLE001
        if not any(f_ in ("Grishagin", "StronginC3") for (f_, _m) in screened_out):
            raise
        two = {"skipped": "a member of these families failed the evaluation screen (reported): %s" % type(ex).__name__}
    cov = {
        "explanation": "each instance is decided by a certificate checked by TLC in exact arithmetic: Cert1D.tla (Hill, Shekel, 1-D Rastrigin), GKLSSpec.tla "
                       "(GKLS: global minimum decided from the parameters), Bench.tla (XSquared exact; Rastrigin separability; Shekel4 branch-and-bound tree "
                       "with exact interval bounds), BoxCert2D.tla (Grishagin, StronginC3); clauses: value at the declared point within 1e-4, nothing lower "
                       "than f* - 2e-3 max(1,|f*|), every global minimiser within 0.5% of the box side of the declared point",
        "evaluations": sum(instances.values()), "distinct_nontrivial": sum(instances.values()),
        "rule": "one case per family member; all distinct",
        "samples": [{"family": rows[0][0], "member": rows[0][1], "verdict": verdicts[1]["min"]}, {"shekel4": bv[-1]}],
        "instances_by_family": instances, "clause_verdicts": counts, "undecided": undecided[:20],
        "certificate_cells_1d": sum(verdicts[j[0]]["min"]["cells"] for j in jobs), "shekel4_tree_leaves": leaves,
        "two_dimensional": two, "corrupted_declarations_refuted": 2, "states": states, "exhaustive": not qk,
    }
    return finish(ctx, "other", cov, [
        "derivative bounds hold for the formulas built from the shipped coefficient tables; the code is tied to the formulas through observed values",
        "the certificate searches are untrusted: they can only cause 'undecided'",
        "Rastrigin/XSquared are claimed for dimensions 1..8 (the classes accept any dimension; the argument is dimension-independent)"])
