"""C01: certified eps-optimality under the Lipschitz reliability condition.
  MC  AGPLip.tla (N = 1, exact): one Solve against an adversarial L-Lipschitz objective with values in a finite set; at every
      accuracy stop with r M >= 2 L the best value exceeds the minimum of the McShane envelope - the smallest global minimum any
      L-Lipschitz objective with the observed values can have - by less than (r M / 2) eps.
  TV  N = 1..5: objectives with analytically known Lipschitz constant (box normalised to unit side) and global minimum - minima of
      cones, in particular flat ones with K_N L <= r - are solved by the real solver; AGPTrace.tla recomputes M from the history
      and checks the clause Certified at every accuracy stop whose premise holds."""
import math

from ..agp_drv import FnProblem, SolverRun, rand_box_solver
from ..common import finish, report, run_batches
from ..solver_tv import FAMILY, other_clause_failures, report_failures, validate_runs
from ..tlc import TLCError, require_ok, run_tlc
from .. import scen

FAMILY["C01"] = {"Certified", "StopEarly"}     # StopEarly: Solve returned as if eps were reached although no subdivided interval is below eps
KN = {1: 2.0, 2: 2 ** 2.5 * math.sqrt(5), 3: 2 ** (8 / 3) * math.sqrt(6), 4: 2 ** 2.75 * math.sqrt(7), 5: 2 ** 2.8 * math.sqrt(8)}


def lip_cfg(r="2", eps="1/8", limit=14, vals=("0", "1", "2"), lip="4", invs=("Certified", "Consistent")):
    c = ["SPECIFICATION Spec", "CONSTANT Dim = 1", "CONSTANT Exact = TRUE", 'CONSTANT Rr = "%s"' % r, 'CONSTANT Eps = "%s"' % eps,
         "CONSTANT Limit = %d" % limit, 'CONSTANT Variant = "code"', "CONSTANT Vals = {%s}" % ", ".join('"%s"' % v for v in vals),
         'CONSTANT Lip = "%s"' % lip, "CHECK_DEADLOCK FALSE"] + ["INVARIANT %s" % i for i in invs]
    return "\n".join(c) + "\n"


def cone_problem(rng, n, flat):
    """f(u) = min_j (a_j + L_j ||u - c_j||_2) in coordinates u normalised to the unit box: Lipschitz constant max L_j, minimum min a_j"""
    lo, up = rand_box_solver(rng, n)
    w = [b - a for a, b in zip(lo, up)]
    k = rng.choice([1, 2, 3, 4])
    cs = [[rng.uniform(0.05, 0.95) for _ in range(n)] for _ in range(k)]
    hs = [rng.uniform(-1, 1) for _ in range(k)]
    return lo, up, w, cs, hs


def run(ctx):
    rng = ctx.rng
    qk = ctx.quick
    runs = []
    samples = []
    NEEDLES = 30          # a fixed share of one-dimensional needle / trap objectives in every run
    for i in range(78 if qk else 500):
        n = rng.choice([1, 1, 2, 2, 3, 4, 5]) if i >= NEEDLES else 1
        r_ = rng.choice([2.0, 3.0, 4.0, 6.0, 10.0, 20.0, 40.0, rng.uniform(1.5, 30)])
        eps = rng.choice([0.1, 0.05, 0.02, 0.2, rng.uniform(0.02, 0.3)])
        if n >= 3 and r_ > 10:
            r_ = rng.choice([4.0, 6.0, 8.0])          # large r in high dimension only exhausts the budget
        lo, up, w, cs, hs = cone_problem(rng, n, True)
        mode = rng.choice(["flat", "premise-by-M", "steep", "needle", "needle", "needle"]) if n <= 2 else rng.choice(["flat", "flat", "premise-by-M", "steep"])
        if i < NEEDLES:
            mode = "needle"
        if mode == "flat":
            Lmax = r_ / KN[n] * rng.uniform(0.3, 0.999)          # K_N L <= r: the bound holds unconditionally
        elif mode == "premise-by-M":
            Lmax = r_ / KN[n] * rng.uniform(1.0, 4.0)            # the premise holds only if the observed slopes push M up
        else:
            Lmax = rng.uniform(2, 12)
        Ls = [Lmax] + [Lmax * rng.uniform(0.2, 1.0) for _ in cs[1:]]
        if mode == "needle":
            # a wide shallow cone plus a narrow deeper one whose depth is several times the certified bound (r/2) eps:
            # flat enough that K_N L <= r, so the bound holds unconditionally - the needle must be found
            r_ = rng.choice([1.5, 2.0, 2.0, 3.0]) if n == 1 else rng.choice([2.0, 4.0, 8.0])     # all slopes stay below 1: M sits on its floor
            Lmax = r_ / KN[n] * rng.uniform(0.6, 0.999)
            eps = rng.choice([0.01, 0.02]) if n == 1 else rng.choice([0.04, 0.06])
            depth = (r_ / 2) * eps * rng.uniform(2.5, 6.0)
            c1 = [rng.uniform(0.1, 0.9) for _ in range(n)]
            c2 = [rng.uniform(0.1, 0.9) for _ in range(n)]
            L1 = Lmax * rng.uniform(0.02, 0.08)
            base = L1 * math.sqrt(sum((a - b) ** 2 for a, b in zip(c1, c2)))
            cs, hs, Ls = [c1, c2], [0.0, base - depth], [L1, Lmax]
        if mode == "needle" and n == 1 and i % 3 == 0:
            # a steep local trap: gentle valley with a steep tip, and a far narrow well holding the global minimum; the premise
            # holds once the observed slopes reach L (r >= 2), eps is small, part of the search runs in one DoGlobalIteration batch
            mode = "trap"
            Lmax = rng.uniform(20, 60)
            r_ = rng.uniform(2.2, 4.0)
            eps = rng.choice([1e-3, 5e-4, 3e-4])      # also accuracies below the evolvent resolution 2^-10 (one-dimensional: no grid)
            c1 = rng.uniform(0.05, 0.45)
            c2 = c1 + rng.uniform(0.4, 0.5)
            s_ = rng.uniform(1.0, 3.0)
            cs, hs, Ls = [[c1], [c1], [c2]], [0.3, 0.0, -0.5], [s_, Lmax, Lmax]
        f = lambda y, cs=cs, hs=hs, Ls=Ls, lo=lo, w=w: min(h + L * math.sqrt(sum(((t - a) / wi - c) ** 2 for t, a, wi, c in zip(y, lo, w, cc)))   # noqa: E731
                                                         for h, L, cc in zip(hs, Ls, cs))
        m = rng.choice([10, 8, 12]) if n > 1 else 10
        while n * m > 50:
            m -= 1
        limit = 300 if qk else 700
        if n == 3:
            eps = max(eps, rng.choice([0.12, 0.2]))
        if n >= 4:
            eps = max(eps, rng.choice([0.2, 0.3, 0.25]))
        run_ = SolverRun(FnProblem(n, lo, up, f, "cones/" + mode), r=r_, eps=eps, limit=limit, m=m, tag="cones/" + mode, full_snap=False,
                         listener="none", lip=Lmax, fmin=min(hs))
        if (rng.random() < 0.35 and i >= NEEDLES) or (mode == "needle" and i % 4 == 0) or mode == "trap":
            # the same guarantee must hold when part of the search is made through DoGlobalIteration batches (one big batch, or several)
            if rng.random() < 0.5:
                run_.dgi(rng.choice([25, 40, 60]))
            else:
                for k in scen.compositions(rng, rng.choice([8, 20, 45])):
                    run_.dgi(max(k, rng.choice([1, 6, 15, 30])))
        run_.solve()
        runs.append(run_)
        if len(samples) < 4:
            samples.append({"n": n, "r": r_, "eps": eps, "L": Lmax, "K_N*L/r": KN[n] * Lmax / r_, "cones": len(cs), "mode": mode,
                            "trials": sum(1 for e in run_.events if e["ev"] == "trial")})
    failures, stats = validate_runs(ctx, runs)
    report_failures(ctx, "C01", failures)
    # ---- design level
    if qk:
        cfgs = [("N=1 r=2 eps=1/8 L=4 limit=12 Vals={0,1,2}", lip_cfg(limit=12)), ("N=1 r=3/2 eps=1/8 L=2 limit=11 Vals={0,1,2}", lip_cfg(r="3/2", lip="2", limit=11)),
                ("N=1 r=2 eps=1/8 L=1 (flat: 2L <= r) limit=11 Vals={0,1/2,1}", lip_cfg(lip="1", vals=("0", "1/2", "1"), limit=11))]
    else:
        cfgs = [("N=1 r=2 eps=1/8 L=4 limit=14 Vals={0,1,2}", lip_cfg()), ("N=1 r=3/2 eps=1/8 L=2 limit=14 Vals={0,1,2}", lip_cfg(r="3/2", lip="2")),
                ("N=1 r=2 eps=1/8 L=1 (flat) limit=14 Vals={0,1/2,1}", lip_cfg(lip="1", vals=("0", "1/2", "1"))),
                ("N=1 r=3 eps=1/10 L=6 limit=14 Vals={0,1,2,3}", lip_cfg(r="3", eps="1/10", lip="6", vals=("0", "1", "2", "3"))),
                ("N=1 r=4 eps=1/10 L=8 limit=14 Vals={0,1}", lip_cfg(r="4", eps="1/10", lip="8", vals=("0", "1"), limit=14)),
                ("N=1 r=2 eps=1/10 L=3 limit=13 Vals={0,1,2}", lip_cfg(eps="1/10", lip="3", limit=13))]
    jobs = [lambda c=c: run_tlc("AGPLip", c, workers=4, timeout=3300, xmx="10g") for (_, c) in cfgs]
    jobs.append(lambda: run_tlc("AGPLip", lip_cfg(limit=12, invs=("NeverCertifiable",)), workers=2, timeout=600))
    res = run_batches(jobs, max_workers=4)
    mc = {"states": 0, "transitions": 0, "configs": []}
    for (name, _), r in zip(cfgs, res):
        require_ok(r, "AGPLip " + name)
        mc["states"] += r.distinct
        mc["transitions"] += r.generated
        mc["configs"].append({"module": "AGPLip", "config": name, "invariants": ["Certified", "Consistent"], "distinct": r.distinct, "generated": r.generated, "depth": r.depth})
    if "NeverCertifiable" not in res[-1].violated:
        raise TLCError("vacuity: no accuracy stop with the reliability premise is reachable in AGPLip")
    mc["configs"].append({"module": "AGPLip", "config": "vacuity guard: an accuracy stop with r M >= 2 L is reachable", "refuted_invariant": "NeverCertifiable"})
    if stats["cert"] == 0:
        raise TLCError("vacuity: no recorded run reached an accuracy stop with the premise satisfied")
    cov = {
        "states": mc["states"] + stats["states"], "transitions": mc["transitions"] + stats["states"],
        "traces_validated_against_impl": stats["runs"], "samples": samples,
        "accuracy_stops": stats["accstops"], "accuracy_stops_with_premise_checked": stats["cert"], "premise_checked_by_dimension": stats["cert_by_n"],
        "trials_validated": stats["trials"], "model_checking_configs": mc["configs"],
        "failing_clauses_of_other_properties": other_clause_failures("C01", failures),
        "explanation": "AGPLip.tla: every history of one Solve against every L-Lipschitz-consistent choice of objective values from a finite set (N=1, exact "
                       "rationals); at each accuracy stop with r M >= 2 L the best value is within (r M / 2) eps of the minimum of the McShane envelope, i.e. "
                       "of the global minimum of EVERY L-Lipschitz objective with these values.  Real runs for N=1..5 on minima of cones with known L and "
                       "minimum: M recomputed from the history, premise tested with an upper bound of K_N, conclusion incl. the grid term",
    }
    return finish(ctx, "model_checking", cov, scen.ASSUMPTIONS + [
        "N >= 2: the bound rests on Strongin's theorem; exhaustive exploration is N = 1, real runs are sampled objectives",
        "the literal reading of the property is used: M is the estimate when Solve returns"])
