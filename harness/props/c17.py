"""C17: evolvent queries are pure.  EvolventObj.tla (heap model of the scratch vector) is explored exhaustively;
every call history TLC enumerates from it is replayed on the real object, recorded, and validated by
EvolventObjTrace.tla; plus long random histories."""
import itertools
import re

import numpy as np

from ..common import chunks, finish, parse_tla_value, qv, q, report, run_batches, use_repo, verdict_of, write_ndjson
from ..tlc import TLCError, require_ok, run_tlc

use_repo()
from iOpt.evolvent.evolvent import Evolvent  # noqa: E402
from ..evolvent_drv import make_evolvent, scribbled, set_bounds  # noqa: E402


def obj_cfg(ci, co, ip, ml, xs, ys, kinds, hist=False):
    s = ('SPECIFICATION Spec\nCONSTANT CopyIn = "%s"\nCONSTANT CopyOut = %s\nCONSTANT InPlace = %s\nCONSTANT MaxLen = %d\n'
         'CONSTANT XS = {%s}\nCONSTANT YS = {%s}\nCONSTANT CS = {0, 3}\nCONSTANT ArgKinds = {%s}\n'
         'INVARIANT ResultPure\nINVARIANT HandedStable\nINVARIANT ArgsStable\nINVARIANT NoAliasOut\nCHECK_DEADLOCK FALSE\n'
         % (ci, co, ip, ml, ", ".join(map(str, xs)), ", ".join(map(str, ys)), ", ".join('"%s"' % k for k in kinds)))
    if hist:
        s += "CONSTRAINT PrintHist\n"
    return s


def model_check(ctx):
    stats = {"states": 0, "transitions": 0, "configs": []}
    ml = 5 if ctx.quick else 6
    kinds = ["f64", "list", "ilist"]
    jobs = [("claimed InPlace=%s" % ip, True,
             (lambda ip=ip: run_tlc("EvolventObj", obj_cfg("float", "TRUE", ip, ml, [0, 1, 2], [1, 2, 5], kinds),
                                    workers=4, timeout=1800, xmx="6g"))) for ip in ("TRUE", "FALSE")]
    # negative configurations: the model must be able to SEE the impurity (non-vacuity of the invariants)
    for (ci, co, ip, want) in [("same", "TRUE", "TRUE", "ResultPure"), ("alias", "TRUE", "TRUE", "ArgsStable"),
                               ("float", "FALSE", "TRUE", "NoAliasOut")]:
        jobs.append(("negative CopyIn=%s CopyOut=%s" % (ci, co), want,
                     (lambda ci=ci, co=co, ip=ip: run_tlc("EvolventObj", obj_cfg(ci, co, ip, 4, [0, 1, 2], [1, 2, 5], kinds),
                                                          workers=1, timeout=600))))
    res = run_batches([j[2] for j in jobs], max_workers=5)
    for (name, want, _), r in zip(jobs, res):
        if want is True:
            require_ok(r, "EvolventObj " + name)
            stats["states"] += r.distinct
            stats["transitions"] += r.generated
        else:
            if want not in r.violated:
                raise TLCError("EvolventObj %s: expected a counterexample to %s, TLC reported %s" % (name, want, r.violated))
        stats["configs"].append({"config": name, "distinct": r.distinct, "generated": r.generated,
                                 "expected": "holds" if want is True else "counterexample to " + want})
    return stats


def tlc_histories(ctx, ml, xs, ys, kinds):
    """All call histories of the user process of EvolventObj with MaxLen = ml (ml-1 calls)."""
    r = run_tlc("EvolventObj", obj_cfg("float", "TRUE", "TRUE", ml, xs, ys, kinds, hist=True), workers=1,
                timeout=1800, xmx="6g")
    require_ok(r, "EvolventObj history enumeration")
    hists = []
    out = r.out
    for m in re.finditer(r'<<\s*"HIST"\s*,', out):
        # bracket match
        i = m.start()
        depth, j = 0, i
        while j < len(out):
            if out.startswith("<<", j):
                depth += 1
                j += 2
            elif out.startswith(">>", j):
                depth -= 1
                j += 2
                if depth == 0:
                    break
            else:
                j += 1
        hists.append(parse_tla_value(out[i:j])[1])
    return hists, r


BOX = {0: (-1.0, 3.0), 3: (-0.5, 5.5)}      # one integral box (handed over as ints in some replays, as the repository's tests do), one fractional
XVAL = {0: 0.0, 1: 0.75, 2: 1.0}
YPT = {1: [0, 0, 0, 0, 0], 2: [1, 2, 1, 0, 2], 5: [2, 0, 2, 1, 1]}


_q, _qv = q, qv


def q(x):        # noqa: F811  (values are only compared for equality by EvolventObjTrace.tla: a non-finite result stays a token)
    try:
        return _q(x)
    except ValueError:
        return "nonfinite:" + repr(float(x))


def qv(v):       # noqa: F811
    return [q(t) for t in v]


class Rec:
    def __init__(self, events, idgen):
        self.events = events
        self.idgen = idgen
        self.held = []          # references: keeps ids unique
        self.ord = {}           # id(obj) -> ordinal
        self.ordgen = itertools.count(1)

    def reset(self):
        self.held, self.ord = [], {}
        self.events.append({"id": next(self.idgen), "op": "reset"})

    def ordinal(self, obj):
        k = id(obj)
        if k not in self.ord:
            self.ord[k] = next(self.ordgen)
            self.held.append(obj)
        return self.ord[k]

    def live(self):
        return [{"id": self.ord[id(o)], "val": qv(np.asarray(o, dtype=float).ravel())} for o in self.held]

    def cfg(self, op, n, m, lo, up):
        self.n, self.m, self.lo, self.up = n, m, list(lo), list(up)
        self.events.append({"id": next(self.idgen), "op": op, "n": n, "m": m, "lo": qv(lo), "up": qv(up)})

    def base(self, op):
        return {"id": next(self.idgen), "op": op, "n": self.n, "m": self.m, "lo": qv(self.lo), "up": qv(self.up)}

    def image(self, ev, x):
        try:
            r = ev.GetImage(x)
        except Exception as ex:      # noqa: BLE001
            self.events.append(dict(self.base("raises"), of="image", exc=type(ex).__name__, xf=repr(x)))
            return None
        e = self.base("image")
        known = id(r) in self.ord
        rid = self.ordinal(r)
        e.update(x=q(x), rid=rid, val=qv(r), xf=repr(x), live=[] if known else None)
        # live contents of everything held, *including* the fresh result (its own value)
        e["live"] = self.live()
        self.events.append(e)
        return r

    def inverse(self, ev, via, kind, vals, reuse=None):
        if reuse is not None:
            arg = reuse
        elif kind == "f64":
            arg = np.array(vals, dtype=np.double)
        elif kind == "list":
            arg = [float(v) for v in vals]
        elif kind == "f32":
            arg = np.array(vals, dtype=np.float32)
        else:
            arg = [int(v) for v in vals]
        before = qv(np.asarray(arg, dtype=float).ravel())
        try:
            x = ev.GetInverseImage(arg) if via == "inverse" else ev.GetPreimages(arg)
        except Exception as ex:      # noqa: BLE001
            if kind != "f64" and reuse is None:
                from ..evolvent_drv import NOTES      # another representation than the documented float64 array is rejected: noted
                NOTES.append("%s(argument as %s) raised %s" % (via, kind, type(ex).__name__))
            else:
                self.events.append(dict(self.base("raises"), of=via, exc=type(ex).__name__, kind=kind))
            return arg
        after = qv(np.asarray(arg, dtype=float).ravel())
        e = self.base(via)
        aid = self.ordinal(arg) if isinstance(arg, np.ndarray) else 0
        e.update(aid=aid, before=before, after=after, x=q(float(x)), kind=kind, live=self.live())
        self.events.append(e)
        return arg


def replay_history(rec, hist, n, m):
    rec.reset()
    ev = None
    for st in hist:
        op = st["op"]
        if op in ("new", "setbounds"):
            a, b = BOX[st["c"]]
            lo, up = [a] * n, [b] * n
            la, ua, scribble = scribbled(lo, up)      # the caller's arrays are (sometimes) overwritten after configuration:
            if op == "new":                           # results for one configuration must not depend on that (the memo is per configuration)
                ev = make_evolvent(la, ua, n, m, lo, up)
            else:
                set_bounds(ev, la, ua, lo, up)
            if (len(rec.events) + st.get("c", 0)) % 2 == 0:
                scribble()
            rec.cfg(op, n, m, lo, up)
        elif op == "image":
            rec.image(ev, XVAL[st["x"]])
        else:
            base = YPT[st["y"]][:n]
            vals = base if st["kind"] == "ilist" else [v + 0.25 for v in base]
            rec.inverse(ev, op, st["kind"], vals)


def random_history(rec, rng, length):
    from ..evolvent_drv import scribbled,  rand_box
    rec.reset()
    n = rng.choice([1, 1, 2, 2, 3, 4, 5])
    m = rng.randint(2, min(12, 50 // n))
    objs = []
    for _ in range(rng.choice([1, 1, 2])):
        lo, up = rand_box(rng, n)
        la, ua, scribble = scribbled(lo, up)
        objs.append([make_evolvent(la, ua, n, m, lo, up), lo, up])
        if rng.random() < 0.5:
            scribble()
        rec.cfg("new", n, m, lo, up)
    xs = [rng.random() for _ in range(4)] + [0.0, 1.0, 0.5, 0.75]
    boxes = [rand_box(rng, n) for _ in range(2)] + [(o[1], o[2]) for o in objs]
    # boxes that differ from another one only slightly (a zoom or shift by a relative 1e-7 .. 1e-6): still different configurations
    for (blo, bup) in list(boxes[:2]):
        d = rng.choice([1e-7, 3e-7, 1e-6])
        boxes.append(([a + d * (abs(a) + (b - a)) for a, b in zip(blo, bup)], [b - d * (b - a) for a, b in zip(blo, bup)]))
    ypts = {}
    arrays = []
    for _ in range(length):
        o = rng.choice(objs)
        ev, lo, up = o
        rec.n, rec.m, rec.lo, rec.up = n, m, list(lo), list(up)
        r = rng.random()
        if r < 0.4:
            rec.image(ev, rng.choice(xs))
        elif r < 0.85:
            key = (tuple(lo), tuple(up))
            pts = ypts.setdefault(key, [[rng.uniform(a, b) for a, b in zip(lo, up)] for _ in range(3)] +
                                  [[float(round((a + b) / 2)) if a <= round((a + b) / 2) <= b else (a + b) / 2
                                    for a, b in zip(lo, up)]])
            y = rng.choice(pts)
            kind = rng.choice(["f64", "f64", "list", "ilist", "f32"])
            if kind == "ilist":
                y = [float(int(v)) if a <= int(v) <= b else v for v, a, b in zip(y, lo, up)]
                if any(v != int(v) for v in y):
                    kind = "list"
            reuse = None
            if kind == "f64" and arrays and rng.random() < 0.3:
                cand = rng.choice(arrays)
                if all(a <= v <= b for v, a, b in zip(cand, lo, up)):
                    reuse = cand            # the same ndarray object passed again
            if kind == "f32":
                y = [float(np.float32(v)) for v in y]
                if not all(a <= v <= b for v, a, b in zip(y, lo, up)):
                    kind = "list"
            arg = rec.inverse(ev, rng.choice(["inverse", "preimages"]), kind, y, reuse=reuse)
            if isinstance(arg, np.ndarray) and arg.dtype == np.double and reuse is None:
                arrays.append(arg)
        else:
            lo2, up2 = rng.choice(boxes)
            la, ua, scribble = scribbled(lo2, up2)
            set_bounds(ev, la, ua, lo2, up2)
            if rng.random() < 0.5:
                scribble()
            o[1], o[2] = list(lo2), list(up2)
            rec.cfg("setbounds", n, m, lo2, up2)
            # reference: what an object built for these bounds answers (first in the memo of this configuration)
            fresh = make_evolvent(np.array(lo2, dtype=np.double), np.array(up2, dtype=np.double), n, m, lo2, up2)
            for x in rng.sample(xs, 3):
                rec.image(fresh, x)
            rec.image(ev, rng.choice(xs))


def run(ctx):
    mc = model_check(ctx)
    if ctx.quick:
        hists, r = tlc_histories(ctx, 4, [0, 1], [1, 2], ["f64", "list", "ilist"])
    else:
        hists, r = tlc_histories(ctx, 5, [0, 1, 2], [1, 2, 5], ["f64", "list", "ilist"])
        if len(hists) > 40000:
            hists = ctx.rng.sample(hists, 40000)
    idgen = itertools.count(1)
    files, nev, nh = [], 0, 0
    groups = []
    for n in (1, 2, 3):
        events = []
        rec = Rec(events, idgen)
        for h in hists:
            replay_history(rec, h, n, 4)
            nh += 1
        groups.append(events)
    rnd = []
    rec = Rec(rnd, idgen)
    for _ in range(60 if ctx.quick else 1500):
        random_history(rec, ctx.rng, ctx.rng.randint(10, 60))
        nh += 1
    groups.append(rnd)
    jobs, metas = [], []
    for gi, events in enumerate(groups):
        # split at history boundaries ("reset" events)
        starts = [i for i, e in enumerate(events) if e["op"] == "reset"]
        nch = max(1, min(5, len(events) // 4000))
        bounds = [starts[(len(starts) * k) // nch] for k in range(nch)] + [len(events)]
        for k in range(nch):
            ch = events[bounds[k]:bounds[k + 1]]
            if not ch:
                continue
            path = ctx.path("obj-%d-%d.ndjson" % (gi, k))
            write_ndjson(path, ch)
            jobs.append(lambda path=path: run_tlc("EvolventObjTrace", "SPECIFICATION Spec\nCHECK_DEADLOCK FALSE\n",
                                                  env={"TRACE_FILE": path}, workers=1, timeout=3000, xmx="3g"))
            metas.append(ch)
    results = run_batches(jobs, max_workers=16)
    states = 0
    for ch, rr in zip(metas, results):
        v = verdict_of(rr)
        if v is None or not rr.ok or v["events"] != len(ch):
            raise TLCError("EvolventObjTrace gave no complete verdict:\n" + rr.out[-1500:])
        states += rr.distinct
        nev += len(ch)
        byid = {e["id"]: e for e in ch}
        for (eid, clause) in v["failed"]:
            e = byid[eid]
            report(ctx, "C17 clause=%s op=%s N=%s kind=%s" % (clause, e["op"], e.get("n"), e.get("kind", "-")),
                   {"clause": clause, "event": {k: v2 for k, v2 in e.items() if k != "live"}})
    coverage = {
        "states": mc["states"] + states, "transitions": mc["transitions"] + states,
        "traces_validated_against_impl": nh,
        "samples": [hists[len(hists) // 3], [{k: v for k, v in e.items() if k != "live"} for e in rnd[1:6]]],
        "exhaustive": True,
        "model_checking_configs": mc["configs"],
        "tlc_generated_histories_replayed": len(hists) * 3,
        "random_histories": 60 if ctx.quick else 1500,
        "events_validated": nev,
        "explanation": "EvolventObj explored exhaustively (all call histories of the stated length over the small "
                       "alphabets, heap model of the scratch vector); every history replayed on the real Evolvent for "
                       "N=1,2,3 and validated by EvolventObjTrace (bit-exact memo semantics, array identity and contents).",
    }
    return finish(ctx, "model_checking", coverage, [
        "TLC 1.8 / CommunityModules; recorder holds a reference to every array so that id() is unique among live objects",
        "purity is compared bit for bit (exact rationals of the doubles)",
    ])
