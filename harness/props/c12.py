"""C12: solver instances are isolated.
  MC   AGPMulti.tla: S solvers + explicit heap of the mutable objects whose sharing matters, call-stack discipline for
       nested calls; Isolated/OwnViewOK/DistinctObjects with fresh objects; SharedDefaults=TRUE (the pinned tree) must be
       refuted (negative control reproducing D2/D3).
  GEN  AGPMultiSched.tla: every schedule of public calls of two solvers within the bounds (all interleavings of the
       step sequences, incl. calls nested inside another solver's objective) is printed by TLC and replayed on real
       Solver instances.
  TV   each solver's events - its own calls and an observation of it after EVERY step of any other solver - are
       validated by AGPTrace.tla (the specification's state of a solver does not change while others run, so any
       change of its trial count, search information, reported best or accuracy is a failing clause); SeqCompare.tla
       requires every solver's trial sequence and result to equal its solo run and all list / holder objects of
       different solvers to be distinct."""
import random as _r

from ..agp_drv import FnProblem, SolverRun, objective_zoo, rand_box_solver, snapshot_solution
from ..common import finish, q, qv, report, run_batches, tagged_values
from ..pairs import Pairs
from ..solver_tv import FAMILY, other_clause_failures, report_failures, validate_runs
from ..tlc import TLCError, require_ok, run_tlc
from .. import scen

FAMILY["C12"] = {"First", "ArgMax", "Point", "Inside", "Count", "DgiCount", "BestValue", "BestIsTrial", "BestAtPoint", "BestPresent",
                 "SnapCount", "SnapLinks", "SnapOrder", "SnapZ", "SnapHolder", "SnapDelta", "SnapImage", "SnapEnds", "SnapIter",
                 "ZLogged", "YLogged", "Accuracy", "StopLate", "StopEarly", "SolveReturns", "NoIntExc", "UnexpectedEvaluation",
                 "ObservedUnchanged", "RefValue", "RefNotWorse", "RefPointInBox"}


def multi_cfg(spec="Spec", solvers=(1, 2), vals=("0", "1"), limit=4, eps="1/8", maxcalls=2, maxbatch=2, maxtrials=4, shared=False,
              invs=("OwnViewOK", "DistinctObjects"), props=("Isolated",), dim=1, r="2"):
    c = ["SPECIFICATION " + spec, "CONSTANT Dim = %d" % dim, "CONSTANT Exact = TRUE", 'CONSTANT Rr = "%s"' % r, 'CONSTANT Eps = "%s"' % eps,
         "CONSTANT Limit = %d" % limit, 'CONSTANT Variant = "code"', "CONSTANT Vals = {%s}" % ", ".join('"%s"' % v for v in vals),
         "CONSTANT Solvers = {%s}" % ", ".join(str(s) for s in solvers), "CONSTANT MaxCalls = %d" % maxcalls, "CONSTANT MaxBatch = %d" % maxbatch,
         "CONSTANT MaxTrials = %d" % maxtrials, "CONSTANT SharedDefaults = %s" % ("TRUE" if shared else "FALSE"), "CONSTRAINT Bound",
         "CHECK_DEADLOCK FALSE"]
    c += ["INVARIANT %s" % i for i in invs] + ["PROPERTY %s" % p for p in props]
    return "\n".join(c) + "\n"


def schedules(maxcalls, maxbatch, with_solve):
    res = run_tlc("AGPMultiSched", multi_cfg(spec="SchedSpec", vals=("0",), limit=100, eps="1/1000", maxcalls=maxcalls, maxbatch=maxbatch,
                                             maxtrials=maxcalls * maxbatch, invs=("EmitSched",), props=()), workers=1, timeout=1500, xmx="6g")
    require_ok(res, "AGPMultiSched")
    out = set()
    for (sch,) in tagged_values(res.out, "SCHED"):
        t = tuple((e[0], e[1], e[2], e[3]) for e in sch)
        if not with_solve and any(e[1] == "solve" for e in t):
            continue
        out.add(t)
    return sorted(out), res.distinct


class Group:
    """A set of real solvers driven by one schedule; every solver not in a call is observed after every step of any other."""

    def __init__(self, rng, k, tag, lazy, share_problem, share_params=False, force_refine=False, faults=None):
        self.rng = rng
        self.specs = []
        self.shared_params = None
        self.share_params = share_params
        n0 = rng.choice([1, 2, 2, 3])
        shared = None
        for j in range(k):
            n = n0 if share_problem else rng.choice([n0, rng.choice([1, 2, 3])])
            lo, up = rand_box_solver(rng, n)
            fseed = rng.randrange(1 << 30)
            name, f = objective_zoo(_r.Random(fseed), n, lo, up)
            if share_problem:
                if shared is None:
                    shared = FnProblem(n, lo, up, f, name)
                prob = shared
            else:
                prob = FnProblem(n, lo, up, f, name)
            r_, eps, limit, m = scen.rand_params(rng, n)
            if share_params and self.specs:
                # every solver of the group is built with ONE SolverParameters object (same r, eps, limit; density must fit the dimension)
                r_, eps, limit = self.specs[0]["r"], self.specs[0]["eps"], self.specs[0]["limit"]
                m = self.specs[0]["m"]
                if n * m > 50:
                    n = self.specs[0]["prob"].numberOfFloatVariables
                    lo, up = rand_box_solver(rng, n)
                    name, f = objective_zoo(_r.Random(fseed), n, lo, up)
                    prob = FnProblem(n, lo, up, f, name)
            self.specs.append(dict(prob=prob, r=r_, eps=eps, limit=limit, m=m, tag="%s/%s#%d" % (prob.name, tag, j + 1),
                                   listener=rng.choice(["rec", "none"]), refine=(not share_params and (force_refine or rng.random() < 0.35))))
        self.runs = {}
        self.lazy = lazy
        self.stack = []
        self.calls = {j: [] for j in range(1, k + 1)}
        self.bystander = None
        if share_params and rng.random() < 0.6:
            # a bystander of higher dimension built FIRST with the same SolverParameters object (a user's 6-D problem with the
            # default density): creating it must not change what the parameters mean for the solvers created afterwards
            from iOpt.solver import Solver
            from iOpt.solver_parametrs import SolverParameters
            sp = self.specs[0]
            self.shared_params = SolverParameters(eps=sp["eps"], r=sp["r"], itersLimit=sp["limit"], evolventDensity=sp["m"], refineSolution=False)
            nb = rng.choice([6, 6, 7])
            self.bystander = Solver(FnProblem(nb, [-1.0] * nb, [1.0] * nb, lambda y: sum(t * t for t in y), "bystander"), parameters=self.shared_params)
            import contextlib
            import io
            with contextlib.redirect_stdout(io.StringIO()):
                self.bystander.DoGlobalIteration(2)
        for j, flt in (faults or {}).items():
            self.specs[j - 1]["fault"] = flt          # (before any solver of the group is built)
        if not lazy:
            for j in range(1, k + 1):
                self.get(j)

    def mk(self, j, solo=False):
        sp = self.specs[j - 1]
        params = None
        if self.share_params and not solo:
            if self.shared_params is None:
                from iOpt.solver_parametrs import SolverParameters
                self.shared_params = SolverParameters(eps=sp["eps"], r=sp["r"], itersLimit=sp["limit"], evolventDensity=sp["m"], refineSolution=False)
            params = self.shared_params
        return SolverRun(sp["prob"], r=sp["r"], eps=sp["eps"], limit=sp["limit"], m=sp["m"], tag=sp["tag"] + ("/solo" if solo else ""),
                         listener=sp["listener"], full_snap=True, params=params, refine=sp["refine"],
                         fault=None if sp.get("fault") is None else (sp["fault"][0], type(sp["fault"][1])()))

    def get(self, j):
        if j not in self.runs:
            self.runs[j] = self.mk(j)
        return self.runs[j]

    def observe_others(self):
        for j, run in self.runs.items():
            if j not in self.stack:
                run.observe()

    def play(self, sched):
        self._play(list(sched), 0, 0)

    def _play(self, sch, i, depth):
        """execute entries of nesting depth `depth` starting at i; returns the index of the first entry not consumed"""
        while i < len(sch) and sch[i][3] >= depth:
            (j, name, k, d) = sch[i]
            assert d == depth
            run = self.get(j)
            nxt = i + 1
            nested_end = nxt
            while nested_end < len(sch) and sch[nested_end][3] > depth:
                nested_end += 1
            if nested_end > nxt:
                fired = []

                def hook(kk, nxt=nxt, fired=fired):
                    if not fired:
                        fired.append(1)
                        self._play(sch[:nested_end], nxt, depth + 1)
                run.rp.on_call = hook
            self.stack.append(j)
            self.calls[j].append((name, k))
            if name == "dgi":
                run.dgi(k)
            else:
                run.solve()
            run.rp.on_call = None
            self.stack.pop()
            self.observe_others()
            i = nested_end
        return i

    def finish(self, pairs, tag):
        """solo runs and pairwise records"""
        runs = []
        lists, holders = [], []
        res = lambda r: [snapshot_solution(r.solver.GetResults())[key] for key in ("ntr", "by", "bv", "acc")]   # noqa: E731
        final = {j: res(run) for j, run in self.runs.items()}      # read BEFORE any solo run exists (a solo run is one more solver)
        for j, run in sorted(self.runs.items()):
            solo = self.mk(j, solo=True)
            for (name, k) in self.calls[j]:
                if name == "dgi":
                    solo.dgi(k)
                else:
                    solo.solve()
            meta = {"schedule": tag, "solver": j, "calls": self.calls[j], "objective": self.specs[j - 1]["prob"].name}
            seq = lambda r: [[e["x"], e["ylog"], e["zlog"]] for e in r.events if e["ev"] == "trial"]     # noqa: E731
            pairs.add("SoloSequence", "equal", seq(run), seq(solo), meta)
            pairs.add("SoloResult", "equal", final[j], res(solo), meta)
            pairs.add("SoloResult", "equal", res(run), final[j], dict(meta, note="result read again after the solo runs of the other solvers"))
            sol = run.solver.GetResults()
            lists.append(id(sol.bestTrials))
            lists.append(id(sol))
            if run.solver.searchData.GetCount() > 0:
                for it in run.solver.searchData:
                    if it.GetIndex() >= 0:           # evaluated trials only (an unevaluated end item may legitimately carry a shared sentinel)
                        holders.append(id(it.functionValues[0]))
                        holders.append(id(it.functionValues))
            runs += [run, solo]
        pairs.add("DistinctObjects", "distinct", _ordinals(lists), [], {"schedule": tag, "objects": "Solution / bestTrials list objects of all solvers"})
        pairs.add("DistinctObjects", "distinct", _ordinals(holders), [], {"schedule": tag, "objects": "value holders of all items of all solvers"})
        return runs


def _ordinals(ids):
    seen = {}
    return [seen.setdefault(i, len(seen) + 1) for i in ids]


def run(ctx):
    rng = ctx.rng
    qk = ctx.quick
    pairs = Pairs(ctx, "c12")
    scheds, gen_states = schedules(3 if qk else 4, 1, with_solve=True)
    flat = [s for s in scheds if all(e[3] == 0 for e in s)]
    nested = [s for s in scheds if any(e[3] > 0 for e in s)]
    full = [s for s in flat if len(s) == (6 if qk else 8) and all(e[1] == "dgi" for e in s)]       # complete interleavings of 3+3 / 4+4 steps
    chosen = list(full)
    others = [s for s in flat if s not in set(full) and len(s) >= 3]
    chosen += rng.sample(others, min(len(others), 25 if qk else 300))
    chosen += rng.sample(nested, min(len(nested), 25 if qk else 300))
    runs = []
    samples = []
    for si, sch in enumerate(chosen):
        g = Group(rng, 2, "sched%d" % si, lazy=rng.random() < 0.5, share_problem=rng.random() < 0.2, share_params=rng.random() < 0.2)
        g.play(sch)
        runs += g.finish(pairs, list(sch))
        if si in (0, len(full), len(chosen) - 1):
            samples.append({"schedule": [list(e) for e in sch], "solvers": [s["tag"] for s in g.specs], "created": "lazily" if g.lazy else "upfront"})
    # three solvers, longer random schedules with batches, Solve, refinement
    for gi in range(3 if qk else 40):
        g = Group(rng, 3, "random%d" % gi, lazy=rng.random() < 0.5, share_problem=False)
        sch = []
        for _ in range(rng.randint(5, 12)):
            j = rng.randint(1, 3)
            sch.append((j, "dgi", rng.choice([1, 2, 3, 5]), 0) if rng.random() < 0.8 else (j, "solve", 0, 0))
        for j in rng.sample([1, 2, 3], 3):
            sch.append((j, "solve", 0, 0))
        g.play(sch)
        runs += g.finish(pairs, sch)
    # several solvers built on ONE Problem object (a study repeated with other parameters), sequentially and interleaved
    for gi in range(3 if qk else 15):
        g = Group(rng, 3, "same-problem%d" % gi, lazy=(gi % 2 == 0), share_problem=True)
        if gi % 2 == 0:
            sch = [(1, "solve", 0, 0), (2, "solve", 0, 0), (3, "dgi", 4, 0), (3, "solve", 0, 0)]
        else:
            sch = [(1, "dgi", 3, 0), (2, "dgi", 2, 0), (1, "dgi", 2, 0), (3, "dgi", 5, 0), (2, "solve", 0, 0), (1, "solve", 0, 0), (3, "solve", 0, 0)]
        g.play(sch)
        runs += g.finish(pairs, sch)
    # the SAME Problem object handed to several Solvers (no recording wrapper in between: the object itself is what they share)
    import contextlib
    import io
    from iOpt.solver import Solver
    from iOpt.solver_parametrs import SolverParameters

    class LoggedProblem(FnProblem):
        def __init__(self, *a, **kw):
            super().__init__(*a, **kw)
            self.seqs, self.current = {}, None

        def Calculate(self, point, functionValue):
            out = super().Calculate(point, functionValue)
            self.seqs.setdefault(self.current, []).append([qv(point.floatVariables), q(float(out.value))])
            return out

    for gi in range(3 if qk else 20):
        n = rng.choice([1, 2, 2, 3])
        lo, up = rand_box_solver(rng, n)
        fseed = rng.randrange(1 << 30)
        name, f = objective_zoo(_r.Random(fseed), n, lo, up)
        confs = [scen.rand_params(rng, n) for _ in range(3)]
        order = [("A", "dgi", 4), ("B", "solve", 0), ("A", "solve", 0), ("C", "solve", 0)] if gi % 2 == 0 else \
                [("A", "solve", 0), ("B", "dgi", 3), ("C", "dgi", 2), ("B", "solve", 0), ("C", "solve", 0)]

        def drive(shared):
            probs = {}
            solvers = {}
            P = LoggedProblem(n, lo, up, f, name)
            for (who, (r_, eps, limit, m)) in zip("ABC", confs):
                probs[who] = P if shared else LoggedProblem(n, lo, up, f, name)
                solvers[who] = Solver(probs[who], parameters=SolverParameters(r=r_, eps=eps, itersLimit=min(limit, 40), evolventDensity=m))
            with contextlib.redirect_stdout(io.StringIO()):
                for (who, call, k) in order:
                    probs[who].current = who
                    if call == "dgi":
                        solvers[who].DoGlobalIteration(k)
                    else:
                        solvers[who].Solve()
            return {who: probs[who].seqs.get(who, []) for who in "ABC"}
        together, alone = drive(True), drive(False)
        for who in "ABC":
            pairs.add("SoloSequence", "equal", together[who], alone[who],
                      {"schedule": order, "solver": who, "objective": name, "kind": "three solvers on one Problem object vs. each on an object of its own"})
    # one solver's objective is interrupted (KeyboardInterrupt / SystemExit / GeneratorExit raised inside it, contained by its Solve): the
    # others, running before, in between and afterwards, are not concerned
    for gi in range(2 if qk else 10):
        exc = [KeyboardInterrupt, SystemExit, GeneratorExit][gi % 3]
        g = Group(rng, 3, "interrupted%d" % gi, lazy=rng.random() < 0.5, share_problem=False, faults={1: (rng.choice([2, 3, 5]), exc())})
        g.play([(2, "dgi", 2, 0), (1, "solve", 0, 0), (2, "solve", 0, 0), (3, "dgi", 3, 0), (3, "solve", 0, 0)])
        runs += g.finish(pairs, "interrupted bystander")
    # every solver refines its solution (refineSolution=True): Solutions returned by earlier Solve calls are observed after each later
    # solver's search and refinement
    for gi in range(2 if qk else 12):
        g = Group(rng, 3, "refining%d" % gi, lazy=rng.random() < 0.5, share_problem=False, force_refine=True)
        sch = []
        for j in rng.sample([1, 2, 3], 3):
            if rng.random() < 0.5:
                sch.append((j, "dgi", rng.choice([2, 4, 7]), 0))
            sch.append((j, "solve", 0, 0))
        g.play(sch)
        runs += g.finish(pairs, sch)
    failures, stats = validate_runs(ctx, runs)
    report_failures(ctx, "C12", failures)
    pf, pstats = pairs.decide()
    for f in pf:
        report(ctx, "C12 clause=%s" % f["clause"], {"clause": f["clause"], "first_differing_index": f["index"], "case": f["meta"]})
    # design level
    mcs = [("S=2 Vals={0,1} calls<=2 batch<=2 trials<=3 fresh objects", multi_cfg(maxtrials=3), None)] if qk else \
          [("S=2 Vals={0,1} calls<=2 batch<=2 trials<=4 fresh objects", multi_cfg(), None),
           ("S=2 Vals={0,1,2} calls<=2 batch<=1 trials<=3 fresh objects", multi_cfg(vals=("0", "1", "2"), maxbatch=1, maxtrials=3), None),
           ("S=3 Vals={0,1} calls<=1 batch<=2 trials<=2 fresh objects", multi_cfg(solvers=(1, 2, 3), maxcalls=1, maxtrials=2), None)]
    mcs.append(("NEGATIVE CONTROL S=2 shared default objects (the pinned tree)", multi_cfg(shared=True, invs=(), maxtrials=3), "Isolated"))
    res = run_batches([lambda c=c: run_tlc("AGPMulti", c, workers=6, timeout=3000, xmx="8g") for (_, c, _) in mcs], max_workers=3)
    mc = {"states": 0, "transitions": 0, "configs": []}
    for (name, _, neg), r in zip(mcs, res):
        if neg:
            if neg not in r.violated:
                raise TLCError("negative control: AGPMulti with shared defaults should violate %s, TLC reported %s" % (neg, r.violated or "no error"))
            mc["configs"].append({"module": "AGPMulti", "config": name, "refuted_property": neg, "distinct": r.distinct})
            continue
        require_ok(r, "AGPMulti " + name)
        mc["states"] += r.distinct
        mc["transitions"] += r.generated
        mc["configs"].append({"module": "AGPMulti", "config": name, "invariants": ["OwnViewOK", "DistinctObjects"], "properties": ["Isolated"],
                              "distinct": r.distinct, "generated": r.generated, "depth": r.depth})
    cov = {
        "states": mc["states"] + stats["states"] + gen_states, "transitions": mc["transitions"] + stats["states"] + gen_states,
        "traces_validated_against_impl": stats["runs"], "samples": samples,
        "schedules_from_tlc": len(scheds), "schedules_replayed": len(chosen), "complete_interleavings_replayed": len(full),
        "nested_schedules_replayed": sum(1 for s in chosen if any(e[3] > 0 for e in s)),
        "pairwise_records": pstats["records"], "trials_validated": stats["trials"], "events_validated": stats["events"],
        "model_checking_configs": mc["configs"],
        "failing_clauses_of_other_properties": other_clause_failures("C12", failures),
        "explanation": "every schedule TLC enumerates from AGPMultiSched.tla within the bounds (all interleavings of two solvers' single-iteration "
                       "steps, schedules with Solve, calls nested inside another solver's objective) is replayed on real solvers created upfront or "
                       "lazily, on different problems or one shared problem object; after every step of any solver every other solver is observed "
                       "and must still be in the state the specification holds for it; each solver's trials and result must equal its solo run",
    }
    return finish(ctx, "model_checking", cov, scen.ASSUMPTIONS)
