"""C11: determinism and independence from batching.
  MC   AGPPair.tla: any call pattern vs. a reference of single iterations on the same (arbitrary) objective.
  GEN  TLC enumerates the call patterns (user actions of AGPPair.tla); each is replayed on fresh real solvers.
  TV   every run is validated by AGPTrace.tla (it is a behaviour of the one deterministic rule, Solve ends exactly at
       the first moment the stop criterion holds, a second Solve makes no trial) and pairwise by SeqCompare.tla
       (bit-equal trial sequences against the reference; repeated runs identical, also across hash seeds)."""
import json
import os
import random as _r
import subprocess
import sys

from ..agp_drv import FnProblem, SolverRun, objective_zoo, rand_box_solver
from ..common import VERIF, finish, q, report, tagged_values
from ..pairs import Pairs
from ..solver_tv import FAMILY, other_clause_failures, report_failures, validate_runs
from ..tlc import TLCError, require_ok, run_tlc
from .. import scen

FAMILY["C11"] = {"StopLate", "StopEarly", "DgiCount", "Budget", "First", "ArgMax", "Point", "Inside", "Count", "SolveReturns"}

PAIR_INVS = ["MemoFun", "SameSequence", "SameStateAtEnd", "SolveEndsAtFirstStop", "StopIndexOK"]


def pair_cfg(dim=1, r="2", eps="1/8", limit=6, vals=("0", "1", "2"), maxcalls=3, maxbatch=3, ref=6, invs=PAIR_INVS, props=("SolveAgainNoTrials",)):
    c = ["SPECIFICATION Spec", "CONSTANT Dim = %d" % dim, "CONSTANT Exact = TRUE", 'CONSTANT Rr = "%s"' % r, 'CONSTANT Eps = "%s"' % eps,
         "CONSTANT Limit = %d" % limit, 'CONSTANT Variant = "code"', "CONSTANT Vals = {%s}" % ", ".join('"%s"' % v for v in vals),
         "CONSTANT MaxCalls = %d" % maxcalls, "CONSTANT MaxBatch = %d" % maxbatch, "CONSTANT RefTrials = %d" % ref, "CHECK_DEADLOCK FALSE"]
    c += ["INVARIANT %s" % i for i in invs] + ["PROPERTY %s" % p for p in props]
    return "\n".join(c) + "\n"


def call_patterns(nmax):
    """All public call histories TLC enumerates from the user actions of AGPPair.tla with at most nmax iterations made
    through DoGlobalIteration; kept: DoGlobalIteration batches followed by 0, 1 or 2 Solve calls."""
    res = run_tlc("AGPPair", pair_cfg(eps="1/1000", limit=nmax, vals=("0",), maxcalls=nmax + 2, maxbatch=nmax, ref=nmax,
                                      invs=["EmitCalls"], props=()), workers=1, timeout=900)
    require_ok(res, "AGPPair call-pattern enumeration")
    pats = set()
    for (calls,) in tagged_values(res.out, "CALLS"):
        pat = tuple(("dgi", c[1]) if c[0] == "dgi" else ("solve", 0) for c in calls)
        names = [c[0] for c in pat]
        nd = sum(1 for x in names if x == "dgi")
        if names[:nd] == ["dgi"] * nd and len(names) - nd <= 2:
            pats.add(pat)
    return sorted(pats), res.distinct


def do_pattern(mk, pat, tag):
    run = mk(tag=tag)
    for (name, k) in pat:
        if name == "dgi":
            run.dgi(k)
        else:
            run.solve()
    return run


def seq_of(run):
    """trial sequence as seen by the objective: (curve coordinate, point, value) per trial, exactly encoded"""
    return [[e["x"], e["ylog"], e["zlog"]] for e in run.events if e["ev"] == "trial"]


CHILD = r"""
import json, sys
sys.path.insert(0, %r)
from harness.props.c11 import child_main
child_main()
"""


def child_main():
    spec = json.loads(sys.stdin.read())
    rng = _r.Random(spec["seed"])
    n = spec["n"]
    lo, up = spec["lo"], spec["up"]
    name, f = objective_zoo(_r.Random(spec["fseed"]), n, lo, up)
    run = SolverRun(FnProblem(n, lo, up, f, name), r=spec["r"], eps=spec["eps"], limit=spec["limit"], m=spec["m"], full_snap=False, listener="none")
    run.solve()
    print(json.dumps(seq_of(run)))


def run(ctx):
    rng = ctx.rng
    qk = ctx.quick
    pairs = Pairs(ctx, "c11")
    nmax = 5 if qk else 7
    pats, gen_states = call_patterns(nmax)
    runs = []
    nconf = 3 if qk else 6
    samples = []
    for ci in range(nconf):
        n = [1, 2, 3, 1, 2, 1][ci % 6]
        lo, up = rand_box_solver(rng, n)
        fseed = rng.randrange(1 << 30)
        name, f = objective_zoo(_r.Random(fseed), n, lo, up)
        r_, eps, _, m = scen.rand_params(rng, n)
        limit = [3, 6, 12, 4, 6, 12][ci % 6]        # (3, 4: the longer patterns pass the budget before Solve is called)
        eps = [0.02, 0.12, 0.3, 0.02, 0.12, 0.02][ci % 6]        # (0.02: the budget binds, not the accuracy)
        if ci == nconf - 1:
            # a constant objective: every characteristic ties with others, so the order in which equal entries leave the queue is all
            # that decides the sequence - it must not depend on how the iterations were batched either
            n, limit, eps = 1, 12, 0.02
            lo, up = rand_box_solver(rng, 1)
            name, f = "const", (lambda y: 1.0)
        mk = lambda tag, listener="none": SolverRun(FnProblem(n, lo, up, f, name), r=r_, eps=eps, limit=limit, m=m, tag=tag,  # noqa: E731
                                                    full_snap=False, listener=listener)
        pruns = [do_pattern(mk, pat, "%s/pattern" % name) for pat in pats]
        K = max(len(seq_of(p)) for p in pruns)
        ref = mk("%s/reference" % name)
        for _ in range(K):
            ref.dgi(1)
        rs = seq_of(ref)
        for pat, p in zip(pats, pruns):
            pairs.add("SamePrefix", "prefix", seq_of(p), rs, {"objective": name, "n": n, "r": r_, "eps": eps, "limit": limit, "pattern": pat})
        samples.append({"objective": name, "n": n, "r": r_, "eps": eps, "limit": limit, "pattern": pats[len(pats) // 2],
                        "trials": len(seq_of(pruns[len(pats) // 2]))})
        runs += pruns + [ref]
    # long runs: random compositions, repeated runs, other hash seeds
    nlong = 8 if qk else 120
    for i in range(nlong):
        n = rng.choice([1, 1, 2, 2, 3, 4, 5])
        lo, up = rand_box_solver(rng, n)
        fseed = rng.randrange(1 << 30)
        name, f = objective_zoo(_r.Random(fseed), n, lo, up)
        r_, eps, limit, m = scen.rand_params(rng, n)
        mk = lambda tag, listener="none": SolverRun(FnProblem(n, lo, up, f, name), r=r_, eps=eps, limit=limit, m=m, tag=tag,  # noqa: E731
                                                    full_snap=False, listener=listener)
        a = mk(name + "/solve")
        a.solve()
        a.solve()                     # Solve again on a finished solver
        sa = seq_of(a)
        b = mk(name + "/batched", listener=rng.choice(["none", "rec"]))
        total = rng.randint(1, max(1, len(sa) + rng.choice([-3, -1, 0, 2])))
        for k in scen.compositions(rng, max(1, total)):
            b.dgi(k)
        b.solve()
        c = mk(name + "/repeat")
        c.solve()
        pairs.add("SamePrefix", "prefix", seq_of(b), sa, {"objective": name, "n": n, "kind": "random composition then Solve",
                                                            "calls": [(e["name"], e.get("k", 0)) for e in b.events if e["ev"] == "call"]})
        pairs.add("RepeatIdentical", "equal", seq_of(c), sa, {"objective": name, "n": n, "kind": "same run twice in one process"})
        runs += [a, b, c]
        # the late window of the run: one batch ending j trials before the end, the results read, then Solve
        if i < (4 if qk else 40):
            for j in range(1, min(len(sa) - 1, 9 if qk else 14)):
                w = mk(name + "/late-window")
                w.dgi(len(sa) - j)
                w.observe()
                w.solve()
                pairs.add("SameSequence", "equal", seq_of(w), sa, {"objective": name, "n": n, "kind": "DoGlobalIteration(T-%d), GetResults, Solve" % j})
                runs.append(w)
        if i < (4 if qk else 40):
            # Solve entered with the criterion long since true: the batches went j trials beyond the stop moment; Solve in between
            for j in (1, 3):
                w = mk(name + "/beyond-stop")
                w.dgi(len(sa) + j)
                w.solve()
                pairs.add("SamePrefix", "prefix", sa, seq_of(w), {"objective": name, "n": n, "kind": "DoGlobalIteration(T+%d), Solve" % j})
                runs.append(w)
            w = mk(name + "/solve-step-solve")
            w.solve()
            w.dgi(1)
            w.solve()
            pairs.add("SamePrefix", "prefix", sa, seq_of(w), {"objective": name, "n": n, "kind": "Solve, DoGlobalIteration(1), Solve"})
            runs.append(w)
        if i < (4 if qk else 40):
            # the trial sequence does not depend on the accuracy either: a looser / finer eps only moves the stop moment
            for fac in (4.0, 0.25):
                e2 = SolverRun(FnProblem(n, lo, up, f, name), r=r_, eps=min(0.9, eps * fac), limit=limit, m=m, tag=name + "/other-eps", full_snap=False, listener="none")
                e2.solve()
                s2 = seq_of(e2)
                short, long_ = (s2, sa) if len(s2) <= len(sa) else (sa, s2)
                pairs.add("SamePrefix", "prefix", short, long_, {"objective": name, "n": n, "kind": "same problem and r, eps x %g" % fac})
                runs.append(e2)
        if i < (3 if qk else 16):
            spec = {"seed": 1, "n": n, "lo": lo, "up": up, "fseed": fseed, "r": r_, "eps": eps, "limit": limit, "m": m}
            env = dict(os.environ, PYTHONHASHSEED=str(1 + i), PYTHONWARNINGS="ignore", PYTHONDONTWRITEBYTECODE="1")
            pr = subprocess.run([sys.executable, "-c", CHILD % VERIF], input=json.dumps(spec), env=env, capture_output=True, text=True, timeout=600)
            if pr.returncode != 0:
                raise TLCError("child run failed: " + pr.stderr[-800:])
            other = json.loads(pr.stdout.strip().splitlines()[-1])
            pairs.add("RepeatIdentical", "equal", other, sa, {"objective": name, "n": n, "kind": "fresh interpreter, PYTHONHASHSEED=%d" % (1 + i)})
    failures, stats = validate_runs(ctx, runs)
    report_failures(ctx, "C11", failures)
    pf, pstats = pairs.decide()
    for f in pf:
        report(ctx, "C11 clause=%s %s N=%s" % (f["clause"], f["meta"].get("kind", "pattern"), f["meta"].get("n")),
               {"clause": f["clause"], "first_differing_trial": f["index"], "case": f["meta"]})
    # design level
    mcs = [("N=1 r=2 eps=1/8 limit=6 ref=6 Vals={0,1,2}", pair_cfg())] if qk else \
          [("N=1 r=2 eps=1/8 limit=6 ref=7 Vals={0,1,2} calls<=4", pair_cfg(maxcalls=4, maxbatch=4, ref=7)),
           ("N=1 r=3 eps=1/4 limit=5 ref=7 Vals={0,1,3}", pair_cfg(r="3", eps="1/4", limit=5, vals=("0", "1", "3"), maxcalls=4, maxbatch=3, ref=7)),
           ("N=2 r=2 eps=1/2 limit=6 ref=6 Vals={0,1,2}", pair_cfg(dim=2, eps="1/2", maxcalls=4, maxbatch=3, ref=6))]
    from ..common import run_batches
    res = run_batches([lambda c=c: run_tlc("AGPPair", c, workers=6, timeout=3000, xmx="8g", coverage=True) for (_, c) in mcs], max_workers=3)
    mc = scen.agp_design_mc(ctx, "C11")
    for (name, _), r in zip(mcs, res):
        require_ok(r, "AGPPair " + name)
        cov = r.coverage()
        for act in ("RefEval", "UserDGI", "UserSolve", "SolveLoop", "SolveStop", "Answer", "EndCall"):
            if cov.get(act, (0, 0))[1] == 0:
                raise TLCError("vacuity: %s never taken in AGPPair %s" % (act, name))
        mc["states"] += r.distinct
        mc["transitions"] += r.generated
        mc["configs"].append({"module": "AGPPair", "config": name, "invariants": PAIR_INVS, "properties": ["SolveAgainNoTrials"],
                              "distinct": r.distinct, "generated": r.generated, "depth": r.depth})
    cov = {
        "states": mc["states"] + stats["states"] + gen_states, "transitions": mc["transitions"] + stats["states"] + gen_states,
        "traces_validated_against_impl": stats["runs"],
        "samples": samples + [{"tlc_generated_call_patterns": [list(p) for p in pats[:6]]}],
        "call_patterns_from_tlc": len(pats), "max_iterations_in_patterns": nmax, "pattern_replays": len(pats) * nconf,
        "pairwise_records": pstats["records"], "trials_compared_pairwise": pstats["compared"], "trials_validated": stats["trials"],
        "model_checking_configs": mc["configs"],
        "failing_clauses_of_other_properties": other_clause_failures("C11", failures),
        "explanation": "all compositions of up to %d iterations into DoGlobalIteration batches followed by 0/1/2 Solve calls are enumerated by TLC "
                       "from the specification's user actions and replayed on fresh real solvers; every run must be (bit for bit) a prefix of "
                       "the reference run of single iterations, Solve must end exactly at the first moment the recomputed stop criterion holds, "
                       "a second Solve must make no trial; repeated runs (same process, fresh interpreters with other hash seeds) must be identical" % nmax,
    }
    return finish(ctx, "model_checking", cov, scen.ASSUMPTIONS)
