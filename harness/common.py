"""Shared helpers: exact number encoding, evidence, findings, violation reports, parallel TLC batches."""
import concurrent.futures
import hashlib
import json
import os
import random
import re
import shutil
import sys
import tempfile
import time

VERIF = os.path.dirname(os.path.dirname(os.path.abspath(__file__)))
REPO = os.environ.get("IOPT_VERIF_REPO", "/repo")
OUT = os.path.join(os.environ["IOPT_VERIF_EVIDENCE_DIR"], "out") if os.environ.get("IOPT_VERIF_EVIDENCE_DIR") else os.path.join(VERIF, "out")
EVIDENCE = os.environ.get("IOPT_VERIF_EVIDENCE_DIR") or os.path.join(VERIF, "evidence")   # the env override is used only by tools/seeded.sh


def use_repo():
    """Import iOpt from the working tree under test (default /repo), never from a stale copy."""
    if REPO not in sys.path:
        sys.path.insert(0, REPO)
    sys.dont_write_bytecode = True


# ---------------------------------------------------------------- numbers
def q(x):
    """Canonical Q string (radix 16, 'n' or 'n/d') for a Python float / int / Fraction."""
    import fractions
    if isinstance(x, bool):
        raise TypeError("bool")
    if isinstance(x, int):
        n, d = x, 1
    elif isinstance(x, fractions.Fraction):
        n, d = x.numerator, x.denominator
    else:
        x = float(x)
        if x != x or x in (float("inf"), float("-inf")):
            raise ValueError("non-finite value has no rational form: %r" % x)
        n, d = x.as_integer_ratio()
    s = format(n, "x")
    return s if d == 1 else s + "/" + format(d, "x")


def unq(s):
    import fractions
    if "/" in s:
        n, d = s.split("/")
        return fractions.Fraction(int(n, 16), int(d, 16))
    return fractions.Fraction(int(s, 16))


def qv(v):
    return [q(float(t)) for t in v]


# ---------------------------------------------------------------- context
class Ctx:
    def __init__(self, pid, tier, seed):
        self.pid = pid
        self.tier = tier
        self.seed = seed
        self.rng = random.Random(seed * 1000003 + int(hashlib.sha1(pid.encode()).hexdigest()[:6], 16))
        self.t0 = time.time()
        self.tmp = tempfile.mkdtemp(prefix="ioptverif-%s-" % pid)
        self.violations = []      # list of dicts (already de-duplicated by signature)
        self.known = []
        self.notes = []
        self.cov = {}

    @property
    def quick(self):
        return self.tier == "quick"

    def cleanup(self):
        shutil.rmtree(self.tmp, ignore_errors=True)

    def path(self, name):
        return os.path.join(self.tmp, name)


# ---------------------------------------------------------------- findings
def load_findings():
    p = os.path.join(VERIF, "known_findings.json")
    if not os.path.exists(p):
        return []
    with open(p) as f:
        return json.load(f).get("entries", [])


def match_finding(pid, signature):
    """A violation is a known finding only if an entry of kind 'finding' for this property matches its
    signature (regular expression on the signature string).  'fixed' entries suppress nothing."""
    for e in load_findings():
        if e.get("kind") == "finding" and e.get("property") == pid and re.search(e["signature"], signature):
            return e
    return None


def report(ctx, signature, detail):
    """Register a violation (or a known finding).  signature: stable string naming the failing input class."""
    kf = match_finding(ctx.pid, signature)
    if kf:
        if not any(k["signature"] == kf["signature"] for k in ctx.known):
            ctx.known.append({"signature": kf["signature"], "what": kf["what"], "example": signature})
        return
    if any(v["signature"] == signature for v in ctx.violations):
        return
    ctx.violations.append({"signature": signature, "detail": detail})


def finish(ctx, level, coverage, assumptions):
    """Write replay files and the evidence file, print the verdict lines, return the exit code."""
    os.makedirs(OUT, exist_ok=True)
    os.makedirs(EVIDENCE, exist_ok=True)
    for k in ctx.known:
        print("KNOWN-FINDING: property=%s %s (e.g. %s)" % (ctx.pid, k["what"], k["example"]))
    for i, v in enumerate(ctx.violations[:20]):
        rp = os.path.join(OUT, "replay-%s-%d.json" % (ctx.pid, i))
        with open(rp, "w") as f:
            json.dump({"property": ctx.pid, "tier": ctx.tier, "seed": ctx.seed, **v}, f, indent=1, default=str)
        print("VIOLATION property=%s replay=%s" % (ctx.pid, rp))
        print("  " + v["signature"])
    ev = {
        "property_id": ctx.pid, "tier": ctx.tier, "seed": ctx.seed, "level": level,
        "coverage": coverage, "assumptions": assumptions,
        "wall_s": round(time.time() - ctx.t0, 2), "violations": len(ctx.violations),
    }
    if ctx.known:
        ev["coverage"]["known_findings_seen"] = [k["signature"] for k in ctx.known]
    if ctx.notes:
        ev["coverage"]["notes"] = ctx.notes
    with open(os.path.join(EVIDENCE, ctx.pid + ".json"), "w") as f:
        json.dump(ev, f, indent=1, default=str)
        f.write("\n")
    print("%s %s tier=%s seed=%d wall=%.1fs violations=%d" % (
        ctx.pid, "FAIL" if ctx.violations else "ok", ctx.tier, ctx.seed, ev["wall_s"], len(ctx.violations)))
    return 1 if ctx.violations else 0


# ---------------------------------------------------------------- TLC batches
def write_ndjson(path, events):
    with open(path, "w") as f:
        for e in events:
            f.write(json.dumps(e, separators=(",", ":")))
            f.write("\n")


_VERDICT = re.compile(r'<<"VERDICT", (.*)>>\s*$')


def parse_tla_value(s):
    """Parse the subset of TLA+ values TLC prints for our verdicts into Python objects."""
    pos = 0

    def ws():
        nonlocal pos
        while pos < len(s) and s[pos] in " \n\t":
            pos += 1

    def val():
        nonlocal pos
        ws()
        if s.startswith("<<", pos):
            pos += 2
            items = []
            ws()
            if s.startswith(">>", pos):
                pos += 2
                return items
            while True:
                items.append(val())
                ws()
                if s.startswith(",", pos):
                    pos += 1
                    continue
                if s.startswith(">>", pos):
                    pos += 2
                    return items
                raise ValueError("tuple: " + s[pos:pos + 30])
        if s[pos] == "{":
            pos += 1
            items = []
            ws()
            if s[pos] == "}":
                pos += 1
                return items
            while True:
                items.append(val())
                ws()
                if s[pos] == ",":
                    pos += 1
                    continue
                if s[pos] == "}":
                    pos += 1
                    return items
                raise ValueError("set: " + s[pos:pos + 30])
        if s[pos] == "[":
            pos += 1
            rec = {}
            ws()
            if s[pos] == "]":
                pos += 1
                return rec
            while True:
                ws()
                m = re.compile(r"(\w+)\s*\|->").match(s, pos)
                if not m:
                    raise ValueError("record: " + s[pos:pos + 30])
                pos = m.end()
                rec[m.group(1)] = val()
                ws()
                if s[pos] == ",":
                    pos += 1
                    continue
                if s[pos] == "]":
                    pos += 1
                    return rec
                raise ValueError("record: " + s[pos:pos + 30])
        if s[pos] == '"':
            m = re.compile(r'"((?:[^"\\]|\\.)*)"').match(s, pos)
            pos = m.end()
            return m.group(1)
        m = re.compile(r"-?\d+").match(s, pos)
        if m:
            pos = m.end()
            return int(m.group(0))
        m = re.compile(r"TRUE|FALSE").match(s, pos)
        if m:
            pos = m.end()
            return m.group(0) == "TRUE"
        m = re.compile(r"\w+").match(s, pos)
        if m:
            pos = m.end()
            return m.group(0)
        raise ValueError("value: " + s[pos:pos + 30])

    v = val()
    return v


def tagged_values(out, tag):
    """All values TLC printed as <<"tag", ...>> (possibly wrapped over several lines), parsed."""
    vals = []
    for m in re.finditer(r'<<\s*"%s"\s*,' % re.escape(tag), out):
        i = m.start()
        depth = 0
        j = i
        while j < len(out):
            if out.startswith("<<", j):
                depth += 1
                j += 2
                continue
            if out.startswith(">>", j):
                depth -= 1
                j += 2
                if depth == 0:
                    break
                continue
            if out[j] == '"':
                mm = re.compile(r'"((?:[^"\\]|\\.)*)"').match(out, j)
                j = mm.end()
                continue
            j += 1
        vals.append(parse_tla_value(out[i:j])[1:])
    return vals


def verdict_of(res):
    """Extract the single VERDICT record a trace module printed (possibly wrapped over several lines)."""
    out = res.out
    ms = list(re.finditer(r'<<\s*"VERDICT"\s*,', out))
    if not ms:
        return None
    i = ms[-1].start()
    # bracket matching
    depth = 0
    j = i
    while j < len(out):
        if out.startswith("<<", j):
            depth += 1
            j += 2
            continue
        if out.startswith(">>", j):
            depth -= 1
            j += 2
            if depth == 0:
                break
            continue
        if out[j] == '"':
            m = re.compile(r'"((?:[^"\\]|\\.)*)"').match(out, j)
            j = m.end()
            continue
        j += 1
    v = parse_tla_value(out[i:j])
    return v[1]


def run_batches(jobs, max_workers=16):
    """jobs: list of callables returning something; run them in threads (each starts one JVM)."""
    with concurrent.futures.ThreadPoolExecutor(max_workers=max_workers) as ex:
        futs = [ex.submit(j) for j in jobs]
        return [f.result() for f in futs]


def chunks(lst, n):
    n = max(1, n)
    k = (len(lst) + n - 1) // n
    return [lst[i:i + k] for i in range(0, len(lst), k)] if lst else []
