"""Shared by the solver properties (C02-C06, C11, C16, C20...): run AGPTrace.tla over recorded solver runs and
map failing clauses back to events; scenario builders."""
import json

from .common import chunks, report, run_batches, verdict_of, write_ndjson
from .tlc import TLCError, run_tlc

FAMILY = {
    "C02": {"First", "ArgMax", "Point", "Inside", "SpuriousGuard"},
    "C03": {"Count", "Budget", "StopLate", "StopEarly", "Accuracy", "SolveReturns", "NoIntExc", "DgiCount"},
    "C04": {"BestValue", "BestIsTrial", "BestAtPoint", "BestPresent", "RefValue", "RefBestOfLocal"},   # RefValue: reported value = objective at the reported point, after refinement
    "C05": {"InBox", "RefInBox", "RefNotWorse", "RefValue", "RefPointInBox", "UnexpectedEvaluation", "RefBestOfLocal"},
    "C06": {"SnapCount", "SnapLinks", "SnapOrder", "SnapZ", "SnapHolder", "SnapDelta", "SnapImage", "SnapEnds",
            "SnapIter", "ZLogged", "YLogged", "Image"},       # (SameHolder is an identity, not required by the property: recorded, not judged)
    "C16": {"ArgMax", "Point", "Inside", "Accuracy", "StopLate", "StopEarly", "DgiCount", "FailContained", "Count", "BestValue", "BestIsTrial", "BestPresent", "SnapCount", "SnapLinks", "SnapOrder",
            "SnapZ", "SnapHolder", "SnapDelta", "SnapImage", "SnapEnds", "SnapIter"},
    "C20": {"OnGrid"},
}


def strip_private(e):
    return {k: v for k, v in e.items() if not k.startswith("_")}


def validate_runs(ctx, runs, exact=False, label="agp"):
    """runs: list of SolverRun (or objects with .events and .n).  Returns (failures, stats) where failures is a
    list of dicts {tid, id, clause, event, run}."""
    byn = {}
    for r in runs:
        byn.setdefault(r.n, []).append(r)
    jobs, metas = [], []
    for n, rs in sorted(byn.items()):
        total = sum(len(r.events) for r in rs)
        nch = max(1, min(16 if not ctx.quick else 6, total // 1500))
        for ci, ch in enumerate(chunks(rs, nch)):
            events = []
            for r in ch:
                events.extend(strip_private(e) for e in r.events)
            path = ctx.path("%s-N%d-%d.ndjson" % (label, n, ci))
            write_ndjson(path, events)
            cfg = ("SPECIFICATION Spec\nCONSTANT N = %d\nCONSTANT Dim = %d\nCONSTANT Exact = %s\nCHECK_DEADLOCK FALSE\n"
                   % (n, n, "TRUE" if exact else "FALSE"))
            jobs.append(lambda path=path, cfg=cfg: run_tlc("AGPTrace", cfg, env={"TRACE_FILE": path}, workers=1,
                                                           timeout=3400, xmx="4g"))
            metas.append((n, ch, len(events)))
    results = run_batches(jobs, max_workers=16)
    failures = []
    stats = {"events": 0, "runs": 0, "trials": 0, "argmax_comparisons": 0, "recalcs": 0, "states": 0, "by_n": {}, "cert": 0, "accstops": 0,
             "cert_by_n": {}, "kinds": {}}
    for r in runs:
        for e in r.events:
            k = e["ev"] + (":" + e.get("kind", e.get("name", "")) if e["ev"] in ("cb", "call") else "")
            stats["kinds"][k] = stats["kinds"].get(k, 0) + 1
    for (n, ch, nev), res in zip(metas, results):
        v = verdict_of(res)
        if v is None or not res.ok:
            raise TLCError("AGPTrace gave no verdict (N=%d):\n%s" % (n, res.out[-2500:]))
        if v["events"] != nev:
            raise TLCError("AGPTrace consumed %d of %d events" % (v["events"], nev))
        stats["events"] += nev
        stats["states"] += res.distinct
        stats["runs"] += v["stats"]["runs"]
        stats["trials"] += v["stats"]["trials"]
        stats["argmax_comparisons"] += v["stats"]["argmax"]
        stats["recalcs"] += v["stats"]["recalcs"]
        stats["cert"] += v["stats"]["cert"]
        stats["accstops"] += v["stats"]["accstops"]
        stats["cert_by_n"][n] = stats["cert_by_n"].get(n, 0) + v["stats"]["cert"]
        stats["by_n"][n] = stats["by_n"].get(n, 0) + v["stats"]["trials"]
        bytid = {r.tid: r for r in ch}
        for (tid, eid, clause) in v["failed"]:
            run = bytid[tid]
            ev = next(e for e in run.events if e["id"] == eid)
            failures.append({"tid": tid, "id": eid, "clause": clause, "event": ev, "run": run})
        if v["nfail"] and not v["failed"]:
            raise TLCError("inconsistent verdict")
    return failures, stats


def run_summary(run, upto=None):
    """Small replayable description of a run for the replay file."""
    init = run.events[0]
    calls = [(e["name"], e.get("k", 0)) for e in run.events if e["ev"] == "call"]
    xs = [e.get("xf") for e in run.events if e["ev"] == "trial"][:60]
    return {"init": {k: init[k] for k in ("n", "m", "lo", "up", "r", "eps", "limit", "refine", "tag")},
            "calls": calls, "first_trial_x": xs}


def report_failures(ctx, pid, failures, extra_families=()):
    fam = set(FAMILY[pid]) | {"Malformed", "WrongDimensionInBatch"}
    for f in extra_families:
        fam |= set(f)
    n = 0
    for f in failures:
        if f["clause"] not in fam:
            continue
        n += 1
        run = f["run"]
        ev = {k: v for k, v in f["event"].items() if k not in ("snap",)}
        sig = "%s clause=%s ev=%s N=%d tag=%s" % (pid, f["clause"], f["event"]["ev"], run.n, run.events[0].get("tag", ""))
        report(ctx, sig, {"clause": f["clause"], "event": ev, "run": run_summary(run)})
    return n


def other_clause_failures(pid, failures):
    fam = FAMILY[pid]
    out = {}
    for f in failures:
        if f["clause"] not in fam:
            out[f["clause"]] = out.get(f["clause"], 0) + 1
    return out
