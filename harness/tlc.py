"""Run TLC (with the Q kernel override on the classpath) and parse what it printed."""
import os
import re
import shutil
import subprocess
import tempfile
import time

VERIF = os.path.dirname(os.path.dirname(os.path.abspath(__file__)))
SPEC = os.path.join(VERIF, "spec")
JAR = "/opt/veriftools/tla/tla2tools.jar"
CM = "/opt/veriftools/tla/CommunityModules-deps.jar"
CLASSES = os.path.join(VERIF, "build", "classes")


class TLCError(Exception):
    """Machinery failure (exit 2), never a property violation."""


def ensure_kernel():
    cls = os.path.join(CLASSES, "iopt", "verif", "QKernel.class")
    src = os.path.join(VERIF, "kernel", "iopt", "verif", "QKernel.java")
    if not os.path.exists(cls) or os.path.getmtime(cls) < os.path.getmtime(src):
        os.makedirs(CLASSES, exist_ok=True)
        srcs = [os.path.join(VERIF, "kernel", "iopt", "verif", f) for f in ("QKernel.java", "Overrides.java")]
        subprocess.run(["javac", "-nowarn", "-d", CLASSES, "-cp", JAR] + srcs, check=True)


class TLCResult:
    def __init__(self, rc, out, wall):
        self.rc = rc
        self.out = out
        self.wall = wall
        m = re.findall(r"(\d+) states generated, (\d+) distinct states found", out)
        self.generated = int(m[-1][0]) if m else 0
        self.distinct = int(m[-1][1]) if m else 0
        m = re.search(r"The depth of the complete state graph search is (\d+)", out)
        self.depth = int(m.group(1)) if m else 0
        self.ok = ("Model checking completed. No error has been found." in out) or \
                  (rc == 0 and "Error:" not in out)
        self.violated = re.findall(r"Invariant (\S+) is violated", out) + \
            re.findall(r"Action property (\S+) is violated", out) + \
            (["<temporal>"] if "Temporal properties were violated" in out else []) + \
            (["<postcondition>"] if "POSTCONDITION" in out and "violated" in out and "Invariant" not in out else [])

    def printed(self):
        """Values printed with PrintT, one per line (lines that look like TLA+ values/records)."""
        res = []
        for ln in self.out.splitlines():
            s = ln.strip()
            if s.startswith("[") or s.startswith("<<") or s.startswith("\""):
                res.append(s)
        return res

    def coverage(self):
        """Per-action counts from -coverage output: {action: (distinct, total)}."""
        cov = {}
        for m in re.finditer(r"<(\w+) line \d+, col \d+ to line \d+, col \d+ of module (\w+)>: (\d+):(\d+)", self.out):
            name = m.group(1)
            d, t = int(m.group(3)), int(m.group(4))
            od, ot = cov.get(name, (0, 0))
            cov[name] = (max(od, d), max(ot, t))
        return cov


def run_tlc(module, cfg, *, env=None, workers=1, timeout=600, xmx="4g", simulate=None, depth=None,
            coverage=False, dump=None, extra=(), deadlock=None, spec_dir=SPEC, seed=None, cwd=None, xss="16m"):
    """module: module name in spec_dir; cfg: path or literal cfg text."""
    ensure_kernel()
    tmp = tempfile.mkdtemp(prefix="ioptverif-tlc-")
    try:
        if not cfg.endswith(".cfg"):
            cfgp = os.path.join(tmp, module + ".cfg")
            with open(cfgp, "w") as f:
                f.write(cfg)
        else:
            cfgp = cfg if os.path.isabs(cfg) else os.path.join(spec_dir, cfg)
        cp = ":".join([JAR, CM, CLASSES])
        cmd = ["java", "-XX:+UseParallelGC", "-Xmx" + xmx, "-Xss" + xss, "-Djava.io.tmpdir=" + tmp, "-cp", cp,
               "-Dtlc2.overrides.TLCOverrides=tlc2.overrides.TLCOverrides:iopt.verif.Overrides",
               "tlc2.TLC", "-workers", str(workers), "-metadir", os.path.join(tmp, "meta"),
               "-noGenerateSpecTE", "-config", cfgp]
        if deadlock is False:
            cmd.append("-deadlock")
        if simulate:
            cmd += ["-simulate", simulate]
        if depth:
            cmd += ["-depth", str(depth)]
        if seed is not None:
            cmd += ["-seed", str(seed)]
        if coverage:
            cmd += ["-coverage", "1"]
        if dump:
            cmd += ["-dump", "dot,actionlabels", dump]
        cmd += list(extra)
        cmd.append(os.path.join(spec_dir, module + ".tla"))
        e = dict(os.environ)
        e.pop("JAVA_TOOL_OPTIONS", None)
        if env:
            e.update({k: str(v) for k, v in env.items()})
        t0 = time.time()
        try:
            p = subprocess.run(cmd, env=e, cwd=cwd or tmp, stdout=subprocess.PIPE, stderr=subprocess.STDOUT,
                               timeout=timeout, text=True, errors="replace")
        except subprocess.TimeoutExpired as ex:
            raise TLCError(f"TLC timed out after {timeout}s on {module}") from ex
        return TLCResult(p.returncode, p.stdout, time.time() - t0)
    finally:
        shutil.rmtree(tmp, ignore_errors=True)


def run_apalache(module, args, timeout=600, spec_dir=SPEC):
    """apalache-mc check <args> <module>.tla; returns 'NoError', 'Error' (a counterexample), or None if Apalache is not usable"""
    tmp = tempfile.mkdtemp(prefix="ioptverif-apa-")
    try:
        cmd = ["apalache-mc", "check", "--out-dir=" + os.path.join(tmp, "out")] + list(args) + [os.path.join(spec_dir, module + ".tla")]
        try:
            # the launcher makes its java.io.tmpdir with mktemp -t: keep it inside the run's own directory (removed below)
            p = subprocess.run(cmd, cwd=tmp, stdout=subprocess.PIPE, stderr=subprocess.STDOUT, timeout=timeout, text=True, errors="replace",
                               env=dict(os.environ, TMPDIR=tmp))
        except (OSError, subprocess.TimeoutExpired):
            return None
        if "The outcome is: NoError" in p.stdout:
            return "NoError"
        if "The outcome is: Error" in p.stdout:
            return "Error"
        return None
    finally:
        shutil.rmtree(tmp, ignore_errors=True)


def require_ok(res, what):
    if not res.ok or res.violated:
        tail = "\n".join(res.out.splitlines()[-60:])
        raise TLCError(f"{what}: TLC did not complete cleanly (rc={res.rc}, violated={res.violated})\n{tail}")
    return res
