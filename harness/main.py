"""./check <ID> [--tier quick|thorough] [--replay PATH]"""
import argparse
import importlib
import json
import os
import sys
import traceback

from .common import Ctx
from .tlc import TLCError

PROPS = {
    "C07": "evolvent", "C08": "evolvent", "C09": "evolvent", "C17": "c17", "C02": "c02", "C03": "solverprops", "C04": "solverprops", "C05": "solverprops", "C06": "solverprops", "C20": "solverprops", "C16": "c16", "C11": "c11", "C12": "c12", "C13": "c13", "C19": "c19", "C15": "c15", "C18": "c18", "C14": "c14", "C10": "c10", "C01": "c01",
}


def main(argv=None):
    ap = argparse.ArgumentParser()
    ap.add_argument("pid")
    ap.add_argument("--tier", default=os.environ.get("VERIF_TIER", "quick"), choices=["quick", "thorough"])
    ap.add_argument("--replay", default=None)
    a = ap.parse_args(argv)
    seed = int(os.environ.get("VERIF_SEED", "0") or 0)
    if a.pid not in PROPS:
        print("unknown property", a.pid)
        return 2
    if a.replay:
        with open(a.replay) as f:
            rp = json.load(f)
        seed = rp.get("seed", seed)
        a.tier = rp.get("tier", a.tier)
        print("replaying %s with tier=%s seed=%d: %s" % (a.pid, a.tier, seed, rp.get("signature")))
    ctx = Ctx(a.pid, a.tier, seed)
    try:
        mod = importlib.import_module("harness.props." + PROPS[a.pid])
        return mod.run(ctx)
    except TLCError as e:
        print("MACHINERY-FAILURE %s: %s" % (a.pid, e))
        return 2
    except Exception:
        traceback.print_exc()
        print("MACHINERY-FAILURE %s: unexpected exception in the harness" % a.pid)
        return 2
    finally:
        ctx.cleanup()


if __name__ == "__main__":
    sys.exit(main())
