"""Scenario builders for the solver properties."""
import math

from .agp_drv import FnProblem, SolverRun, objective_zoo, rand_box_solver, random_problem
from .common import use_repo

use_repo()

ASSUMPTIONS = [
    "TLC 1.8 / CommunityModules; Q kernel (self-tested); black-box recorder copies observable values exactly",
    "objectives return finite doubles; boxes have width >= 2^-10 of the coordinate magnitudes; r > 1; itersLimit >= 1",
    "tolerance 2^-40 relative (DESIGN 2.2): any interval within rounding of the maximal characteristic is accepted",
]


def rand_params(rng, n, short=True):
    r = rng.choice([2.0, 3.0, 4.0, 1.5, rng.uniform(1.05, 10.0), rng.uniform(1.5, 4.5)])
    eps = rng.choice([0.1, 0.05, 0.02, 0.01, 0.25, 0.125, rng.uniform(0.01, 0.3)])
    limit = rng.choice([15, 30, 60, 100]) if short else rng.choice([100, 200, 400])
    m = rng.choice([10, 10, 8, 6, 12]) if n > 1 else 10
    while n * m > 50:
        m -= 1
    return r, eps, limit, m


def compositions(rng, total):
    """random composition of `total` into positive batch sizes"""
    parts = []
    left = total
    while left > 0:
        k = rng.randint(1, min(left, rng.choice([1, 2, 3, 5, 8])))
        parts.append(k)
        left -= k
    return parts


def general_runs(ctx, count, batches=False, refine=False, full_snap=True, dims=None, localref=True):
    rng = ctx.rng
    runs = []
    for i in range(count):
        n = rng.choice(dims) if dims else None
        prob = random_problem(rng, n)
        n = prob.numberOfFloatVariables
        r, eps, limit, m = rand_params(rng, n)
        run = SolverRun(prob, r=r, eps=eps, limit=limit, m=m, refine=(refine and rng.random() < 0.7),
                        tag=prob.name, full_snap=full_snap)
        if batches and rng.random() < 0.5:
            for k in compositions(rng, rng.randint(1, min(limit, 25))):
                run.dgi(k)
                if localref and rng.random() < 0.15:
                    run.localref(rng.choice([5, 20, 60]))     # refinement in the middle of the global search
        run.solve()
        if rng.random() < 0.15:
            run.solve()          # Solve again on a finished solver
        runs.append(run)
    return runs


def benchmark_runs(ctx, quick=True):
    """The instances of the repository's own solving tests plus one member of every family."""
    from iOpt.problems.GKLS import GKLS
    from iOpt.problems.grishagin import Grishagin
    from iOpt.problems.hill import Hill
    from iOpt.problems.rastrigin import Rastrigin
    from iOpt.problems.shekel import Shekel
    from iOpt.problems.xsquared import XSquared
    cases = [
        (Rastrigin(1), 3.5, 0.01, 10), (XSquared(1), 3.5, 0.01, 10), (Hill(0), 3.5, 0.01, 10),
        (Shekel(0), 3.0, 0.01, 10), (Grishagin(1), 3.0, 0.01, 10), (GKLS(2, 1), 3.5, 0.01, 10),
        (Rastrigin(2), 2.5, 0.02, 10),
    ]
    if not quick:
        cases += [(GKLS(2, k), 3.5, 0.01, 10) for k in range(2, 30)] + [(Hill(k), 3.0, 0.01, 10) for k in (5, 17, 301)] + \
                 [(Shekel(k), 3.0, 0.01, 10) for k in (3, 99)] + [(Grishagin(k), 2.8, 0.02, 10) for k in (7, 50)] + \
                 [(GKLS(3, 1), 3.5, 0.05, 10)]
    runs = []
    for prob, r, eps, m in cases:
        run = SolverRun(prob, r=r, eps=eps, limit=400 if quick else 3000, m=m, tag=type(prob).__name__, full_snap=False)
        run.solve()
        runs.append(run)
    return runs


def sample_of(run):
    init = run.events[0]
    return {"problem": init.get("tag"), "n": init["n"], "m": init["m"], "r": init["r"], "eps": init["eps"],
            "limit": init["limit"], "calls": [(e["name"], e.get("k", 0)) for e in run.events if e["ev"] == "call"],
            "trials": sum(1 for e in run.events if e["ev"] == "trial"),
            "first_trials_x": [e["xf"] for e in run.events if e["ev"] == "trial"][:8]}


def agp_design_mc(ctx, pid):
    return {"states": 0, "transitions": 0, "configs": []}
