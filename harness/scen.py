"""Scenario builders for the solver properties."""
import math

from .agp_drv import FnProblem, SolverRun, objective_zoo, rand_box_solver, random_problem
from .common import use_repo

use_repo()

ASSUMPTIONS = [
    "TLC 1.8 / CommunityModules; Q kernel (self-tested); black-box recorder copies observable values exactly",
    "objectives return finite doubles; boxes have width >= 2^-10 of the coordinate magnitudes; r > 1; itersLimit >= 1",
    "tolerance 2^-40 relative (DESIGN 2.2): any interval within rounding of the maximal characteristic is accepted",
]


def rand_params(rng, n, short=True):
    r = rng.choice([2.0, 3.0, 4.0, 1.5, rng.uniform(1.05, 10.0), rng.uniform(1.5, 4.5)])
    eps = rng.choice([0.1, 0.05, 0.02, 0.01, 0.25, 0.125, rng.uniform(0.01, 0.3)])
    limit = rng.choice([15, 30, 60, 100]) if short else rng.choice([100, 200, 400])
    # densities from very coarse (a handful of cells: many trials share a cell, intervals shorter than a cell) to fine
    m = rng.choice([10, 10, 8, 6, 12, 4, 3, 2]) if n > 1 else 10
    while n * m > 50:
        m -= 1
    return r, eps, limit, m


def compositions(rng, total):
    """random composition of `total` into positive batch sizes"""
    parts = []
    left = total
    while left > 0:
        k = rng.randint(1, min(left, rng.choice([1, 2, 3, 5, 8])))
        parts.append(k)
        left -= k
    return parts


def general_runs(ctx, count, batches=False, refine=False, full_snap=True, dims=None, localref=True):
    rng = ctx.rng
    runs = []
    for i in range(count):
        n = rng.choice(dims) if dims else None
        prob = random_problem(rng, n)
        n = prob.numberOfFloatVariables
        r, eps, limit, m = rand_params(rng, n)
        run = SolverRun(prob, r=r, eps=eps, limit=limit, m=m, refine=(refine and rng.random() < 0.7),
                        tag=prob.name, full_snap=full_snap)
        if batches and rng.random() < 0.5:
            for k in compositions(rng, rng.randint(1, min(limit, 25))):
                run.dgi(k)
                if rng.random() < 0.12:
                    # one more listener (the base class: all callbacks no-ops) is attached in the middle of the search
                    from iOpt.method.listener import Listener
                    run.solver.AddListener(Listener())
                if localref and rng.random() < 0.15:
                    run.localref(rng.choice([5, 20, 60]))     # refinement in the middle of the global search
        run.solve()
        if rng.random() < 0.15:
            run.solve()          # Solve again on a finished solver
        runs.append(run)
    return runs


def benchmark_runs(ctx, quick=True):
    """The instances of the repository's own solving tests plus one member of every family."""
    from iOpt.problems.GKLS import GKLS
    from iOpt.problems.grishagin import Grishagin
    from iOpt.problems.hill import Hill
    from iOpt.problems.rastrigin import Rastrigin
    from iOpt.problems.shekel import Shekel
    from iOpt.problems.xsquared import XSquared
    cases = [
        (Rastrigin(1), 3.5, 0.01, 10), (XSquared(1), 3.5, 0.01, 10), (Hill(0), 3.5, 0.01, 10),
        (Shekel(0), 3.0, 0.01, 10), (Grishagin(1), 3.0, 0.01, 10), (GKLS(2, 1), 3.5, 0.01, 10),
        (Rastrigin(2), 2.5, 0.02, 10),
    ]
    if not quick:
        cases += [(GKLS(2, k), 3.5, 0.01, 10) for k in range(2, 30)] + [(Hill(k), 3.0, 0.01, 10) for k in (5, 17, 301)] + \
                 [(Shekel(k), 3.0, 0.01, 10) for k in (3, 99)] + [(Grishagin(k), 2.8, 0.02, 10) for k in (7, 50)] + \
                 [(GKLS(3, 1), 3.5, 0.05, 10)]
    runs = []
    for prob, r, eps, m in cases:
        run = SolverRun(prob, r=r, eps=eps, limit=400 if quick else 3000, m=m, tag=type(prob).__name__, full_snap=False)
        run.solve()
        runs.append(run)
    return runs


def small_r_runs(ctx, count):
    """r barely above 1 on objectives whose slopes equal the running estimate M (|x|, cones, linear): the rule's point then comes
    within a few per cent of an interval end - the extreme corner of 'for every r > 1'"""
    rng = ctx.rng
    runs = []
    for i in range(count):
        n = rng.choice([1, 1, 1, 2])
        lo, up = rand_box_solver(rng, n)
        w = [b - a for a, b in zip(lo, up)]
        c = [rng.uniform(a, b) for a, b in zip(lo, up)]
        kind = rng.choice(["absx", "linear", "cone", "vee"])
        if kind == "absx":
            f = lambda y: sum(abs((t - ci) / wi) for t, ci, wi in zip(y, c, w))                                   # noqa: E731
        elif kind == "linear":
            g = [rng.choice([-1, 1]) * rng.uniform(0.5, 3) for _ in range(n)]
            f = lambda y, g=g: sum(gi * (t - a) / wi for gi, t, a, wi in zip(g, y, lo, w))                       # noqa: E731
        elif kind == "cone":
            L = rng.uniform(0.5, 8)
            f = lambda y, L=L: L * math.sqrt(sum(((t - ci) / wi) ** 2 for t, ci, wi in zip(y, c, w)))          # noqa: E731
        else:
            f = lambda y: max(3 * abs((y[0] - c[0]) / w[0]), 1 - 2 * abs((y[0] - c[0]) / w[0]))                  # noqa: E731
        r = rng.choice([1.01, 1.03, 1.05, 1.1, 1.15, 1.2, 1.24])
        run = SolverRun(FnProblem(n, lo, up, f, kind), r=r, eps=rng.choice([0.02, 0.05]), limit=rng.choice([40, 80]), m=10,
                        tag=kind + "/small-r", full_snap=False, listener="none")
        if rng.random() < 0.4:
            run.dgi(rng.randint(2, 15))
        run.solve()
        runs.append(run)
    return runs


def past_budget_runs(ctx, count):
    """DoGlobalIteration ignores itersLimit: a run continued far past the budget the solver was built with (any structure sized by
    the budget is then too small), and Solve called again afterwards"""
    rng = ctx.rng
    runs = []
    for _ in range(count):
        prob = random_problem(rng, rng.choice([1, 1, 2]))
        n = prob.numberOfFloatVariables
        r, eps, _, m = rand_params(rng, n)
        limit = rng.choice([8, 20, 40])
        run = SolverRun(prob, r=r, eps=1e-9, limit=limit, m=m, tag=prob.name + "/past-budget", full_snap=False, listener="none")
        run.solve()
        for k in compositions(rng, rng.choice([6, 10]) * limit):
            run.dgi(max(k, rng.choice([1, 10, 25])))
        run.solve()
        runs.append(run)
    return runs


def long_runs(ctx, count=1, trials=5200, judge=(0, 1), dims=(1, 2)):
    """a run far longer than any queue bound or cache size a refactoring might introduce (thousands of intervals)"""
    rng = ctx.rng
    runs = []
    for _ in range(count):
        n = rng.choice(list(dims))
        lo, up = rand_box_solver(rng, n)
        w = [b - a for a, b in zip(lo, up)]
        c = [rng.uniform(a, b) for a, b in zip(lo, up)]
        f = lambda y: sum(((t - ci) / wi * 4) ** 2 - 3 * math.cos(2 * math.pi * (t - ci) / wi * 4) for t, ci, wi in zip(y, c, w))   # noqa: E731
        run = SolverRun(FnProblem(n, lo, up, f, "rastrigin-like/long"), r=rng.choice([2.5, 3.0]), eps=1e-7, limit=trials, m=12 if n == 2 else 10,
                        tag="rastrigin-like/long", full_snap=False, listener="none", judge=judge)
        run.solve()
        runs.append(run)
    return runs


def behaviour_replay(ctx, pid):
    """spec -> code: every behaviour of AGP.tla for DoGlobalIteration(T) over all objectives with values in a finite set is replayed
    on the real solver (the objective returns the k-th value of the behaviour at its k-th call); BehaviourMatch.tla requires the real
    trial coordinates to be one of the model's sequences for that objective.  Returns (number of objectives, behaviours, states)."""
    from .common import report, tagged_values, unq, write_ndjson
    from .tlc import TLCError, require_ok, run_tlc
    cfgs = [(1, "2", ("0", "1", "2"), 5), (2, "3", ("0", "1"), 5)] if ctx.quick else \
           [(1, "2", ("0", "1", "2"), 7), (1, "3", ("0", "1", "3"), 6), (2, "3", ("0", "1", "2"), 6), (3, "2", ("0", "1"), 6)]
    recs, nbeh, states = [], 0, 0
    for (n, r, vals, T) in cfgs:
        cfg = agp_cfg(dim=n, r=r, eps="1/100000", limit=1000, vals=vals, maxcalls=1, maxbatch=T, maxtrials=T, invs=["EmitBehaviour"])
        res = run_tlc("AGP", cfg, workers=1, timeout=3000, xmx="6g")
        require_ok(res, "AGP behaviour generation")
        states += res.distinct
        model = {}
        for b in tagged_values(res.out, "BEH"):
            model.setdefault(tuple(b[2]), set()).add(tuple(b[1]))
            nbeh += 1
        for zs, xss in sorted(model.items()):
            vals_f = [float(unq(z)) for z in zs]
            counter = [0]

            def f(y, vals_f=vals_f, counter=counter):
                k = counter[0]
                counter[0] += 1
                return vals_f[k] if k < len(vals_f) else vals_f[-1]
            lo, up = rand_box_solver(ctx.rng, n)
            run = SolverRun(FnProblem(n, lo, up, f, "by-call-index"), r=float(unq(r)), eps=1e-5, limit=1000, m=10, tag="behaviour-replay",
                            full_snap=False, listener="none")
            run.dgi(T)
            recs.append({"id": len(recs) + 1, "code": [e["x"] for e in run.events if e["ev"] == "trial"], "model": [list(x) for x in sorted(xss)],
                         "_zs": zs, "_n": n, "_r": r})
    path = ctx.path("behaviours.ndjson")
    write_ndjson(path, [{k: v for k, v in r.items() if not k.startswith("_")} for r in recs])
    res = run_tlc("BehaviourMatch", "SPECIFICATION Spec\nCHECK_DEADLOCK FALSE\n", env={"TRACE_FILE": path}, workers=1, timeout=3000, xmx="4g")
    vs = tagged_values(res.out, "VERDICT")
    if not res.ok or not vs or vs[-1][0]["records"] != len(recs):
        raise TLCError("BehaviourMatch gave no verdict:\n" + res.out[-2000:])
    for rid in vs[-1][0]["failed"]:
        r = recs[rid - 1]
        report(ctx, "%s clause=NotABehaviourOfTheModel N=%d" % (pid, r["_n"]),
               {"objective_values_by_call": r["_zs"], "r": r["_r"], "trial_coordinates_of_the_code": r["code"], "model_sequences": r["model"][:4]})
    return {"objectives": len(recs), "behaviours": nbeh, "states": states}


def sample_of(run):
    init = run.events[0]
    return {"problem": init.get("tag"), "n": init["n"], "m": init["m"], "r": init["r"], "eps": init["eps"],
            "limit": init["limit"], "calls": [(e["name"], e.get("k", 0)) for e in run.events if e["ev"] == "call"],
            "trials": sum(1 for e in run.events if e["ev"] == "trial"),
            "first_trials_x": [e["xf"] for e in run.events if e["ev"] == "trial"][:8]}


AGP_INVS = {
    "C02": ["MOK", "FlagOK", "QueueOK", "ChosenOK", "InsideOK", "FirstOK", "NoRepeat"],
    "C03": ["CountOK", "AccOK", "NoLateIter", "StopNotifOK"],
    "C04": ["BestOK"],
    "C06": ["RecordOK"],
    "C11": ["CountOK", "NoRepeat"],
    "C13": ["NotifOK", "NotifTrialsOK", "StopNotifOK"],
    "C16": ["RecordOK", "BestOK", "CountOK", "InsideOK", "NoRepeat", "StopNotifOK"],
}
AGP_PROPS = {
    "C02": ["MMonotone"],
    "C03": ["TrialsMonotone", "SolveOnFinished"],
    "C11": ["SolveOnFinished"],
}
AGP_NEG = {"C02": [("NoFlagOnM", "FlagOK"), ("NoRequeueRight", "QueueOK")], "C03": [("AccFromNew", "AccOK")]}


def agp_cfg(dim=1, r="2", eps="1/8", limit=5, vals=("0", "1", "2"), faults=False, maxcalls=2, maxbatch=3, maxtrials=6,
            invs=(), props=(), variant="code", constraint=True):
    c = ["SPECIFICATION Spec", "CONSTANT Dim = %d" % dim, "CONSTANT Exact = TRUE", 'CONSTANT Rr = "%s"' % r,
         'CONSTANT Eps = "%s"' % eps, "CONSTANT Limit = %d" % limit,
         "CONSTANT Vals = {%s}" % ", ".join('"%s"' % v for v in vals), "CONSTANT Faults = %s" % ("TRUE" if faults else "FALSE"),
         "CONSTANT MaxCalls = %d" % maxcalls, "CONSTANT MaxBatch = %d" % maxbatch, "CONSTANT MaxTrials = %d" % maxtrials,
         'CONSTANT Variant = "%s"' % variant, "CHECK_DEADLOCK FALSE"]
    if constraint:
        c.append("CONSTRAINT Bound")
    c += ["INVARIANT %s" % i for i in invs] + ["PROPERTY %s" % p for p in props]
    return "\n".join(c) + "\n"


def agp_design_mc(ctx, pid):
    """Exhaustive runs of the design model AGP.tla (every objective with values in Vals, every public call pattern within
    the bounds, every DEPQ tie-break; with Faults every failure position).  A failure here is a specification/machinery
    problem (exit 2), never a VIOLATION of the code."""
    from .common import run_batches
    from .tlc import TLCError, require_ok, run_tlc
    if pid not in AGP_INVS:
        return {"states": 0, "transitions": 0, "configs": []}
    invs, props = AGP_INVS[pid], AGP_PROPS.get(pid, [])
    faults = pid == "C16"
    cfgs = []
    if ctx.quick:
        cfgs.append(("N=1 r=2 eps=1/8 limit=5 Vals={0,1,2}", agp_cfg(faults=faults, invs=invs, props=props, maxtrials=5 if faults else 6)))
        cfgs.append(("N=2 r=3 eps=1/2 limit=5 Vals={0,1}", agp_cfg(dim=2, r="3", eps="1/2", vals=("0", "1"), faults=faults, invs=invs, props=props, maxtrials=5)))
    else:
        for (r, eps, vals, limit, mt) in [("2", "1/8", ("0", "1", "2"), 7, 7), ("21/20", "1/8", ("0", "1", "2"), 6, 6), ("3", "1/10", ("0", "1", "2"), 6, 7), ("3/2", "1/4", ("0", "1", "3"), 6, 6),
                                          ("2", "1/20", ("0", "1", "2", "5"), 6, 6), ("4", "1/8", ("-1", "0", "1/2"), 6, 7)]:
            cfgs.append(("N=1 r=%s eps=%s limit=%d Vals=%s" % (r, eps, limit, "{" + ",".join(vals) + "}"),
                         agp_cfg(r=r, eps=eps, limit=limit, vals=vals, faults=faults, invs=invs, props=props, maxtrials=mt - (1 if faults else 0))))
        for (n, r, eps) in [(2, "3", "1/2"), (3, "2", "3/4"), (2, "2", "1/4")]:
            cfgs.append(("N=%d r=%s eps=%s limit=6 Vals={0,1,2}" % (n, r, eps),
                         agp_cfg(dim=n, r=r, eps=eps, limit=6, vals=("0", "1", "2"), faults=faults, invs=invs, props=props, maxtrials=6)))
    if pid in ("C03", "C16"):
        # termination of Solve under fairness, no state constraint (the call bounds make the space finite)
        cfgs.append(("liveness N=1 r=2 eps=1/8 limit=%d Vals={0,1} faults" % (5 if ctx.quick else 6),
                     agp_cfg(limit=5 if ctx.quick else 6, vals=("0", "1"), faults=True, maxbatch=2, maxtrials=100, constraint=False,
                             props=["SolveReturns"])))
    jobs = [lambda c=c: run_tlc("AGP", c, workers=4, timeout=3000, xmx="6g", coverage=True) for (_, c) in cfgs]
    # random simulation far beyond the exhaustive bounds (5 values incl. a negative one, 5 calls, batches of 6, 16 trials, faults): it
    # found the drained-queue corner (only the left end's -inf entry left after repeated failures) that the exhaustive bounds do not reach
    simcfg = agp_cfg(r="5/2", eps="1/40", limit=14, vals=("0", "1", "2", "7/2", "-1"), faults=True, maxcalls=5, maxbatch=6, maxtrials=16,
                     invs=sorted(set(invs) | {"RecordOK", "BestOK", "CountOK"}))
    simjob = lambda: run_tlc("AGP", simcfg, workers=4, timeout=3000, xmx="4g", simulate="num=%d" % (150 if ctx.quick else 3000), depth=80,
                             seed=ctx.seed + 1)      # noqa: E731
    negs = AGP_NEG.get(pid, [])
    njobs = [lambda v=v, i=i: run_tlc("AGP", agp_cfg(invs=[i], variant=v), workers=2, timeout=600) for (v, i) in negs]
    results = run_batches(jobs + njobs + [simjob], max_workers=5)
    sim = results.pop()
    if "Error:" in sim.out or sim.violated:
        raise TLCError("AGP.tla simulation run failed:\n" + sim.out[-2500:])
    import re as _re
    msim = _re.findall(r"Progress: (\d+) states checked, (\d+) traces generated", sim.out)
    out = {"states": 0, "transitions": 0, "configs": []}
    for (name, _), r in zip(cfgs, results):
        require_ok(r, "AGP.tla " + name)
        cov = r.coverage()
        for act in ("UserDGI", "UserSolve", "SolveLoop", "Begin", "ObjReturns", "EndCall") + (("ObjRaises", "SolveTail") if "faults" in name or faults else ()):
            if cov and cov.get(act, (0, 0))[1] == 0:
                raise TLCError("vacuity: action %s never taken in AGP.tla %s" % (act, name))
        out["states"] += r.distinct
        out["transitions"] += r.generated
        out["configs"].append({"module": "AGP", "config": name, "invariants": invs if "liveness" not in name else [], "properties": props if "liveness" not in name else ["SolveReturns"],
                               "distinct": r.distinct, "generated": r.generated, "depth": r.depth,
                               "actions": {k: v[1] for k, v in cov.items() if k[0].isupper() and k not in invs}})
    out["configs"].append({"module": "AGP", "config": "random simulation: 5 values, 5 calls, batches <= 6, 16 trials, faults", "invariants": "all of the property",
                           "states_checked": int(msim[-1][0]) if msim else 0, "traces": int(msim[-1][1]) if msim else 0})
    for (v, i), r in zip(negs, results[len(cfgs):]):
        if i not in r.violated:
            raise TLCError("negative control: AGP.tla variant %s should violate %s but TLC reported %s" % (v, i, r.violated or "no error"))
        out["configs"].append({"module": "AGP", "config": "negative control Variant=%s" % v, "refuted_invariant": i, "distinct": r.distinct})
    return out


# ------------------------------------------------------------------ C03
def stop_grid_runs(ctx):
    """eps x itersLimit grid incl. limits 1, 2 and eps >= 1; binding and non-binding budgets; Solve entered with the
    stop criterion already true (second Solve, DoGlobalIteration(k >= limit) before Solve)."""
    rng = ctx.rng
    runs = []
    epss = [2.0, 1.0, 0.5, 0.25, 0.125, 0.1, 0.03, 0.01]
    limits = [1, 2, 3, 5, 8, 13, 24, 40, 1000]
    combos = [(e, l) for e in epss for l in limits]
    if ctx.quick:
        combos = rng.sample(combos, 40) + [(2.0, 1), (1.0, 2), (0.5, 1), (0.01, 2), (0.01, 1), (0.25, 1000)]
    combos += [(5e-4, 700), (2e-4, 700)] if ctx.quick else [(5e-4, 1500), (2e-4, 1500), (1e-4, 2500), (7e-4, 1000)]
    reps = 1 if ctx.quick else 6
    for (eps, limit) in combos:
        for _ in range(reps if eps >= 1e-3 else max(reps, 3)):
            prob = random_problem(rng) if eps >= 1e-3 else random_problem(rng, 1)     # accuracies below 2^-density: one-dimensional
            n = prob.numberOfFloatVariables
            r = rng.choice([2.0, 3.5, rng.uniform(1.1, 8)]) if eps >= 1e-3 else 2.0
            if limit == 1000 and n >= 3 and eps < 0.05:
                eps = 0.08
            run = SolverRun(prob, r=r, eps=eps, limit=limit, m=10 if n * 10 <= 50 else 50 // n, tag=prob.name, full_snap=False)
            mode = rng.choice(["solve", "solve", "solve2", "dgi_over", "dgi_exact", "dgi_part"]) if eps >= 1e-3 else rng.choice(["solve", "solve2", "dgi_part"])
            if mode == "dgi_over":
                run.dgi(min(limit + rng.randint(0, 2), 60))
            elif mode == "dgi_exact":
                run.dgi(min(limit, 60))
            elif mode == "dgi_part" and limit > 1:
                for k in compositions(rng, rng.randint(1, min(limit - 1, 30))):
                    run.dgi(k)
            run.solve()
            if mode == "solve2" or rng.random() < 0.3:
                run.solve()
                if rng.random() < 0.3:
                    run.solve()
            if len(runs) % 4 == 0 and eps >= 1e-3:
                # the search is continued with other parameters: a larger budget and / or a finer accuracy set on the parameters
                # object, then Solve again - it must run on to the NEW criterion (and not at all if that already holds)
                for _ in range(rng.choice([1, 2])):
                    how = rng.choice(["budget", "budget", "eps", "both", "looser"])
                    new_limit = run.params.itersLimit + rng.choice([1, 2, 5, 9]) if how in ("budget", "both") else None
                    new_eps = float(run.params.eps) / rng.choice([2, 4]) if how in ("eps", "both") else (float(run.params.eps) * 2 if how == "looser" else None)
                    run.set_params(limit=new_limit, eps=new_eps)
                    if rng.random() < 0.3:
                        run.dgi(1)
                    run.solve()
            runs.append(run)
    return runs


# ------------------------------------------------------------------ C04
def equal_value_runs(ctx, count):
    """objectives with many equal values; batches with k > 1; snapshots inside listener callbacks"""
    rng = ctx.rng
    runs = []
    for _ in range(count):
        n = rng.choice([1, 1, 2, 3])
        lo, up = rand_box_solver(rng, n)
        kind = rng.choice(["const", "steps", "twovalue", "plateau", "wave"])
        w = [b - a for a, b in zip(lo, up)]
        if kind == "const":
            f = lambda y: 2.5                                                     # noqa: E731
        elif kind == "steps":
            f = lambda y: float(sum(math.floor(3 * (t - a) / wi) for t, a, wi in zip(y, lo, w)))   # noqa: E731
        elif kind == "twovalue":
            f = lambda y: 0.0 if (y[0] - lo[0]) / w[0] < 0.3 else 1.0           # noqa: E731
        elif kind == "plateau":
            f = lambda y: max(0.0, abs((y[0] - lo[0]) / w[0] - 0.6) - 0.2)      # noqa: E731
        else:
            f = lambda y: math.sin(3 * (y[0] - lo[0]) / w[0] * 4 / 3.0 * 3) + 0.3 * (y[0] - lo[0]) / w[0] * 4   # noqa: E731
        prob = FnProblem(n, lo, up, f, kind)
        r, eps, limit, m = rand_params(rng, n)
        run = SolverRun(prob, r=r, eps=eps, limit=limit, m=m, tag=kind)
        for k in compositions(rng, rng.randint(2, min(limit, 30))):
            run.dgi(k)
        run.solve()
        runs.append(run)
    return runs


def tiny_improvement_runs(ctx, count):
    """objective values with a large constant part, or minima approached to high accuracy: successive records differ by far less
    than 1e-9 relative - any tolerance in the record comparison shows"""
    rng = ctx.rng
    runs = []
    for i in range(count):
        n = rng.choice([1, 1, 2])
        lo, up = rand_box_solver(rng, n)
        w = [b - a for a, b in zip(lo, up)]
        c = [rng.uniform(a, b) for a, b in zip(lo, up)]
        off = rng.choice([1e7, -2.5e6, 3e8, 1.0e5])
        kind = rng.choice(["offset-wavy", "offset-bowl", "deep"])
        if kind == "offset-wavy":
            f = lambda y, off=off: off + sum(math.sin(7 * (t - ci) / wi) + ((t - ci) / wi) ** 2 for t, ci, wi in zip(y, c, w))        # noqa: E731
            eps, limit = 0.002, 160
        elif kind == "offset-bowl":
            f = lambda y, off=off: off + sum(((t - ci) / wi) ** 2 for t, ci, wi in zip(y, c, w))                                    # noqa: E731
            eps, limit = 0.002, 200
        else:
            f = lambda y: 2.0 + sum(((t - ci) / wi) ** 2 for t, ci, wi in zip(y, c, w))                                              # noqa: E731
            eps, limit = (1e-6, 260) if n == 1 else (2e-3, 260)
        run = SolverRun(FnProblem(n, lo, up, f, kind), r=rng.choice([2.0, 3.0]), eps=eps, limit=limit, m=10, tag=kind, full_snap=False)
        for k in compositions(rng, rng.randint(2, 30)):
            run.dgi(k)
        run.solve()
        runs.append(run)
    return runs


# ------------------------------------------------------------------ C05
def box_runs(ctx, count):
    """minimum outside / on the boundary, asymmetric boxes, refinement on and off, N = 1..5"""
    rng = ctx.rng
    runs = []
    for i in range(count):
        n = rng.choice([1, 2, 2, 3, 4, 5])
        lo, up = rand_box_solver(rng, n)
        w = [b - a for a, b in zip(lo, up)]
        kind = rng.choice(["linear", "out_quad", "neg_norm", "corner", "monotone_exp", "big_offset", "face"])
        if kind == "linear":
            g = [rng.choice([-1, 1]) * rng.uniform(0.5, 2) for _ in range(n)]
            f = lambda y, g=g: sum(gi * (t - a) / wi for gi, t, a, wi in zip(g, y, lo, w))          # noqa: E731
        elif kind == "out_quad":
            c = [a - rng.uniform(0.05, 0.5) * wi if rng.random() < 0.5 else b + rng.uniform(0.05, 0.5) * wi for a, b, wi in zip(lo, up, w)]
            f = lambda y, c=c: sum(((t - ci) / wi) ** 2 for t, ci, wi in zip(y, c, w))              # noqa: E731
        elif kind == "neg_norm":
            c = [(a + b) / 2 for a, b in zip(lo, up)]
            f = lambda y, c=c: -math.sqrt(sum(((t - ci) / wi) ** 2 for t, ci, wi in zip(y, c, w)))  # noqa: E731
        elif kind == "corner":
            f = lambda y: sum(abs((t - a) / wi) for t, a, wi in zip(y, up, w))                      # noqa: E731
        elif kind == "monotone_exp":
            f = lambda y: math.exp(-sum((t - a) / wi for t, a, wi in zip(y, lo, w)))                # noqa: E731
        elif kind == "big_offset":
            c = [rng.uniform(a, b) for a, b in zip(lo, up)]
            f = lambda y, c=c: 1e6 + 0.2 * sum(((t - ci) / wi * 4) ** 2 - 3 * math.cos(2 * math.pi * (t - ci) / wi * 4) for t, ci, wi in zip(y, c, w))   # noqa: E731
        else:
            c = [a if rng.random() < 0.5 else b for a, b in zip(lo, up)]      # minimiser exactly on faces
            f = lambda y, c=c: sum(((t - ci) / wi) ** 2 for t, ci, wi in zip(y, c, w))              # noqa: E731
        prob = FnProblem(n, lo, up, f, kind)
        r, eps, limit, m = rand_params(rng, n)
        limit = rng.choice([20, 60, 200, 400])          # refinement budget is 5% of the limit
        refine = rng.random() < 0.75
        run = SolverRun(prob, r=r, eps=eps, limit=limit, m=m, refine=refine, tag=kind, full_snap=False)
        if rng.random() < 0.3:
            run.dgi(rng.randint(1, 10))
            if rng.random() < 0.5:
                run.localref(rng.choice([10, 40]))
        run.solve()
        runs.append(run)
    return runs


# ------------------------------------------------------------------ C20
def density_runs(ctx):
    rng = ctx.rng
    runs = []
    combos = [(n, m) for n in (2, 3, 4, 5) for m in range(2, 13) if n * m <= 60]
    if ctx.quick:
        combos = [(n, m) for (n, m) in combos if m in (2, 3, 5, 8, 10, 11, 12)]
    rng.shuffle(combos)      # density order matters for state shared between Evolvent objects
    for (n, m) in combos:
        for _ in range(1 if ctx.quick else 5):
            prob = random_problem(rng, n)
            r, eps, limit, _ = rand_params(rng, n)
            import numpy as _np
            mm = rng.choice([m, m, _np.int64(m), _np.int32(m), _np.arange(2, 13)[m - 2]])      # the density as a Python or a numpy integer
            if len(runs) % 2 == 0:
                run = SolverRun(prob, r=r, eps=eps, limit=min(limit, 40), m=mm, tag=prob.name, full_snap=False)
                run.solve()
            else:
                # the default budget (20000, far more than the grid has cells for coarse densities), the search driven step-wise
                run = SolverRun(prob, r=r, eps=eps, limit=20000, m=mm, tag=prob.name + "/default-budget", full_snap=False)
                for k in compositions(rng, rng.randint(12, 40)):
                    run.dgi(k)
            runs.append(run)
    return runs


# ------------------------------------------------------------------ several solvers alive at once
def interleaved_runs(ctx, groups, full_snap=True, steps=8):
    """Two or three solvers on different problems whose public calls are interleaved; every solver is observed
    (GetResults + search information) after every step of any of them."""
    rng = ctx.rng
    runs = []
    for _ in range(groups):
        k = rng.choice([2, 2, 3])
        n = rng.choice([1, 2, 2, 3])
        grp = []
        for j in range(k):
            prob = random_problem(rng, rng.choice([n, n, rng.choice([1, 2, 3])]))
            r, eps, limit, m = rand_params(rng, prob.numberOfFloatVariables)
            grp.append(SolverRun(prob, r=r, eps=eps, limit=limit, m=m, tag=prob.name + "/multi", full_snap=full_snap,
                                 listener=rng.choice(["rec", "none"])))
        for _ in range(steps):
            a = rng.choice(grp)
            a.dgi(rng.choice([1, 1, 2, 3]))
            for b in grp:
                if b is not a:
                    b.observe()
        for a in rng.sample(grp, len(grp)):
            a.solve()
            for b in grp:
                b.observe()
        runs += grp
    return runs


# ------------------------------------------------------------------ failures
EXC = [Exception, ValueError, ZeroDivisionError, TypeError, KeyboardInterrupt, SystemExit, GeneratorExit,
       StopIteration, MemoryError, RecursionError, KeyError, OSError]      # (StopIteration: silently ends any for-loop / map it travels through)


class CustomBase(BaseException):
    pass


def fault_runs(ctx, count, phase="global", full_snap=True, types=None):
    """A base run to learn the number of evaluations, then runs with the objective raising at evaluation k."""
    rng = ctx.rng
    runs = []
    types = types or (EXC + [CustomBase])
    for _ in range(count):
        n = rng.choice([1, 1, 2, 3])
        lo, up = rand_box_solver(rng, n)
        seed = rng.randrange(1 << 30)
        import random as _r
        name, f = objective_zoo(_r.Random(seed), n, lo, up)
        if phase == "local":
            w = [b - a for a, b in zip(lo, up)]
            g = [rng.choice([-1, 1]) * rng.uniform(0.5, 2) for _ in range(n)]
            name, f = "linear", (lambda y, g=g: sum(gi * (t - a) / wi for gi, t, a, wi in zip(g, y, lo, w)))
        r, eps, limit, m = rand_params(rng, n)
        limit = max(limit, 60) if phase == "local" else limit
        base = SolverRun(FnProblem(n, lo, up, f, name), r=r, eps=eps, limit=limit, m=m, refine=(phase == "local"),
                         tag=name + "/base", full_snap=False)
        base.solve()
        nglob = sum(1 for e in base.events if e["ev"] == "trial")
        nall = len(base.rp.log)
        runs.append(base)
        if phase == "global":
            ks = [k for k in range(2, nglob + 1)]
            ks = ks if len(ks) <= 6 else rng.sample(ks, 6)
        else:
            ks = [k for k in range(nglob + 1, nall + 1)]
            ks = ks if len(ks) <= 3 else rng.sample(ks, 3)
        for k in ks:
            exc = rng.choice(types)
            run = SolverRun(FnProblem(n, lo, up, f, name), r=r, eps=eps, limit=limit, m=m, refine=(phase == "local"),
                            fault=(k, exc("injected")), tag="%s/fault@%d:%s" % (name, k, exc.__name__), full_snap=full_snap)
            if rng.random() < 0.3 and k > 3 and phase == "global":
                run.dgi(rng.randint(1, k - 2))
            run.solve()
            runs.append(run)
    return runs
