"""2-safety comparisons between recorded runs, decided by TLC (SeqCompare.tla)."""
from .common import tagged_values, write_ndjson
from .tlc import TLCError, run_tlc


class Pairs:
    def __init__(self, ctx, label="pairs"):
        self.ctx = ctx
        self.label = label
        self.recs = []
        self.meta = {}

    def add(self, clause, mode, a, b, meta):
        rid = len(self.recs) + 1
        self.recs.append({"id": rid, "clause": clause, "mode": mode, "a": list(a), "b": list(b)})
        self.meta[rid] = meta
        return rid

    def decide(self):
        """Returns (failures, stats); failures: list of dicts {clause, index, meta}."""
        if not self.recs:
            return [], {"records": 0, "compared": 0}
        path = self.ctx.path(self.label + ".ndjson")
        write_ndjson(path, self.recs)
        res = run_tlc("SeqCompare", "SPECIFICATION Spec\nCHECK_DEADLOCK FALSE\n", env={"TRACE_FILE": path}, workers=1, timeout=1200)
        vs = tagged_values(res.out, "VERDICT")
        if not vs or not res.ok:
            raise TLCError("SeqCompare gave no verdict:\n" + res.out[-2000:])
        v = vs[-1][0]
        if v["records"] != len(self.recs):
            raise TLCError("SeqCompare read %d of %d records" % (v["records"], len(self.recs)))
        fails = [{"clause": c, "index": d, "meta": self.meta[rid]} for (rid, c, d) in v["failed"]]
        return fails, {"records": v["records"], "compared": v["compared"]}
