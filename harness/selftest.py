"""setup-time self test: the Q kernel loads into TLC and agrees with integer definitions; a false claim is refuted."""
import os
import sys
import tempfile

from .tlc import SPEC, run_tlc


def main():
    r = run_tlc("QSelfTest", "", timeout=600)
    if not r.ok or '"QSelfTest", "ok"' not in r.out:
        print(r.out[-3000:])
        print("QSelfTest FAILED")
        return 2
    # negative control: a wrong arithmetic fact must be rejected (shows the ASSUMEs are really evaluated)
    d = tempfile.mkdtemp(prefix="ioptverif-self-")
    try:
        for f in ("Q.tla",):
            with open(os.path.join(SPEC, f)) as src, open(os.path.join(d, f), "w") as dst:
                dst.write(src.read())
        with open(os.path.join(d, "QNeg.tla"), "w") as f:
            f.write("---- MODULE QNeg ----\nEXTENDS Q\nASSUME QAdd(QFrac(1, 3), QFrac(1, 6)) = QFrac(1, 3)\n====\n")
        r2 = run_tlc("QNeg", "", timeout=120, spec_dir=d)
        if r2.ok:
            print("negative control was accepted: ASSUMEs are not evaluated")
            return 2
    finally:
        import shutil
        shutil.rmtree(d, ignore_errors=True)
    print("selftest ok (kernel loaded, %0.1fs)" % r.wall)
    return 0


if __name__ == "__main__":
    sys.exit(main())
