"""Recorder for the search-data containers: drives the real classes through their public methods and logs every
operation with its result and a public observation of the container (ContainersTrace.tla events)."""
import itertools

import numpy as np

from .common import q, use_repo

use_repo()
from iOpt.method.search_data import CharacteristicsQueue, SearchData, SearchDataDualQueue, SearchDataItem  # noqa: E402
from iOpt.trial import Point  # noqa: E402
from .agp_drv import FnProblem  # noqa: E402

_PROB = None


def _problem():
    global _PROB
    if _PROB is None:
        _PROB = FnProblem(1, [0.0], [1.0], lambda y: 0.0)
    return _PROB


def qk(v):
    v = float(v)
    if v == float("-inf"):
        return "-inf"
    return q(v)


class ContainerRec:
    _tid = itertools.count(1)

    def __init__(self, kind, maxlen=None, tag=""):
        self.tid = next(ContainerRec._tid)
        self.kind = kind
        self.events = []
        self.items = []          # real objects, index = id - 1
        self.ids = {}
        self.tag = tag
        if kind == "cq":
            self.cq = CharacteristicsQueue(maxlen)
            self.sd = None
        else:
            self.sd = (SearchDataDualQueue if kind == "dual" else SearchData)(_problem(), maxlen)
        self.emit({"op": "init", "maxlen": int(maxlen or 0), "dual": kind == "dual", "kind": kind, "tag": tag})

    def emit(self, e):
        e["tid"] = self.tid
        e["id"] = len(self.events) + 1
        self.events.append(e)
        return e

    def idof(self, obj):
        return self.ids.get(id(obj), 0) if obj is not None else 0

    def obs(self):
        if self.kind == "cq":
            return {"qlen": int(self.cq.GetLen()), "qempty": bool(self.cq.IsEmpty()), "qmaxlen": int(self.cq.GetMaxLen() or 0)}
        sd = self.sd
        o = {"count": int(sd.GetCount())}
        if sd.GetCount() > 0:
            objs = []
            for it in sd:
                objs.append(it)
                if len(objs) > 100000:
                    break
            n = len(objs)
            links = all((it.GetLeft() is (objs[i - 1] if i > 0 else None)) and (it.GetRight() is (objs[i + 1] if i + 1 < n else None))
                        for i, it in enumerate(objs))
            o.update({"iter": [self.idof(it) for it in objs], "links": bool(links),
                      "sorted": all(objs[i - 1].GetX() < objs[i].GetX() for i in range(1, n)),
                      "last": self.idof(sd.GetLastItem())})
        return o


    def _call(self, ev, fn):
        """run one operation of the real container; an exception is a recorded outcome (clause OpRaises), not a harness crash"""
        try:
            res = fn()
        except Exception as ex:      # noqa: BLE001
            ev["raised"] = type(ex).__name__
            try:
                ev["obs"] = self.obs()
            except Exception:       # noqa: BLE001
                pass
            self.emit(ev)
            return None, True
        return res, False

    # ---- operations
    def new(self, x, g, l):
        it = SearchDataItem(Point(np.array([float(x)]), []), float(x))
        it.globalR = float(g)
        it.localR = float(l)
        self.items.append(it)
        self.ids[id(it)] = len(self.items)
        self.emit({"op": "new", "x": q(float(x)), "g": qk(g), "l": qk(l)})
        return len(self.items)

    def setr(self, i, g, l):
        it = self.items[i - 1]
        it.globalR = float(g)
        it.localR = float(l)
        self.emit({"op": "setr", "i": i, "g": qk(g), "l": qk(l), "obs": self.obs()})

    def insertfirst(self, a, b):
        _, bad = self._call({"op": "insertfirst", "a": a, "b": b}, lambda: self.sd.InsertFirstDataItem(self.items[a - 1], self.items[b - 1]))
        if not bad:
            self.emit({"op": "insertfirst", "a": a, "b": b, "obs": self.obs()})

    def insert(self, i, hint=0):
        _, bad = self._call({"op": "insert", "i": i, "hint": int(hint)},
                            (lambda: self.sd.InsertDataItem(self.items[i - 1], self.items[hint - 1])) if hint else (lambda: self.sd.InsertDataItem(self.items[i - 1])))
        if not bad:
            self.emit({"op": "insert", "i": i, "hint": int(hint), "obs": self.obs()})

    def clear(self):
        _, bad = self._call({"op": "clear"}, self.sd.ClearQueue)
        if not bad:
            self.emit({"op": "clear", "obs": self.obs()})

    def refill(self):
        _, bad = self._call({"op": "refill"}, self.sd.RefillQueue)
        if not bad:
            self.emit({"op": "refill", "obs": self.obs()})

    def maxg(self):
        r, bad = self._call({"op": "maxg", "res": 0}, self.sd.GetDataItemWithMaxGlobalR)
        if bad:
            return 0
        self.emit({"op": "maxg", "res": self.idof(r), "obs": self.obs()})
        return self.idof(r)

    def maxl(self):
        r, bad = self._call({"op": "maxl", "res": 0}, self.sd.GetDataItemWithMaxLocalR)
        if bad:
            return 0
        self.emit({"op": "maxl", "res": self.idof(r), "obs": self.obs()})
        return self.idof(r)

    def find(self, x):
        r, bad = self._call({"op": "find", "x": q(float(x)), "res": 0}, lambda: self.sd.FindDataItemByOneDimensionalPoint(float(x)))
        if bad:
            return 0
        self.emit({"op": "find", "x": q(float(x)), "res": self.idof(r), "obs": self.obs()})
        return self.idof(r)

    # ---- CharacteristicsQueue on its own
    def cq_new(self, x=0.5):
        it = SearchDataItem(Point(np.array([float(x)]), []), float(x))
        self.items.append(it)
        self.ids[id(it)] = len(self.items)
        self.emit({"op": "new", "x": q(float(x)), "g": "0", "l": "0"})
        return len(self.items)

    def cq_insert(self, i, key):
        _, bad = self._call({"op": "cq_insert", "i": i, "key": qk(key)}, lambda: self.cq.Insert(float(key), self.items[i - 1]))
        if not bad:
            self.emit({"op": "cq_insert", "i": i, "key": qk(key), "obs": self.obs()})

    def cq_best(self):
        r, bad = self._call({"op": "cq_best", "res": 0, "key": "0"}, self.cq.GetBestItem)
        if bad:
            return
        item, key = r
        self.emit({"op": "cq_best", "res": self.idof(item), "key": qk(key), "obs": self.obs()})

    def cq_clear(self):
        self.cq.Clear()
        self.emit({"op": "cq_clear", "obs": self.obs()})
