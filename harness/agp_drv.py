"""Black-box recorder for solver runs: a recording Problem wrapper, a recording Listener, and a driver that logs
every public call.  Nothing private is read: M, z*, characteristics and the queue are recomputed by the spec."""
import contextlib
import io
import itertools
import math

import numpy as np

from .common import q as _q_exact, use_repo

# A non-finite number where the solver should hold a finite one (a trial's value or coordinate, the reported best value) has no
# rational form: the event it belongs to is replaced by a "malformed" event (clause Malformed of AGPTrace.tla) - a recorded outcome,
# not a crash of the recorder.
_NONFINITE = []


def q(x):
    try:
        return _q_exact(x)
    except ValueError:
        _NONFINITE.append(repr(x))
        return "0"


def qv(v):
    return [q(float(t)) for t in v]


use_repo()
from iOpt.method.listener import Listener  # noqa: E402
from iOpt.problem import Problem  # noqa: E402
from iOpt.solver import Solver  # noqa: E402
from iOpt.solver_parametrs import SolverParameters  # noqa: E402
from iOpt.trial import FunctionValue, Point  # noqa: E402


# ------------------------------------------------------------------ objectives
class FnProblem(Problem):
    """A user-defined objective f: box -> R."""

    def __init__(self, n, lo, up, f, name="fn", ret="same"):
        super().__init__()
        self.name = name
        self.ret = ret          # "same": the value is stored in the supplied holder, which is returned; "fresh": a user's problem that
        #                         builds the FunctionValue it returns itself (the solver stores what Calculate returns)
        self.dimension = n
        self.numberOfFloatVariables = n
        self.numberOfDisreteVariables = 0
        self.numberOfObjectives = 1
        self.numberOfConstraints = 0
        self.floatVariableNames = np.array(["x%d" % i for i in range(n)], dtype=str)
        self.lowerBoundOfFloatVariables = np.array(lo, dtype=np.double)
        self.upperBoundOfFloatVariables = np.array(up, dtype=np.double)
        self.f = f

    def Calculate(self, point, functionValue):
        v = self.f([float(t) for t in point.floatVariables])
        if self.ret == "fresh":
            out = FunctionValue(functionValue.type, functionValue.functionID)
            out.value = v
            return out
        functionValue.value = v
        return functionValue


class RecProblem(Problem):
    """Wraps any Problem; logs every Calculate call (point object, coordinates before/after, holder, value or
    exception).  fault = (k, exception_instance): raise on the k-th call (1-based)."""

    def __init__(self, inner, fault=None):
        super().__init__()
        for a in ("numberOfFloatVariables", "numberOfDisreteVariables", "numberOfObjectives", "numberOfConstraints",
                  "floatVariableNames", "discreteVariableNames", "lowerBoundOfFloatVariables",
                  "upperBoundOfFloatVariables", "discreteVariableValues", "knownOptimum"):
            setattr(self, a, getattr(inner, a))
        if hasattr(inner, "dimension"):
            self.dimension = inner.dimension
        self.inner = inner
        self.fault = fault
        self.log = []          # dicts: point (object), y (list of float), holder (object), value / exc
        self.on_call = None    # optional hook(k) run before the evaluation (used to interleave other solvers)

    def Calculate(self, point, functionValue):
        k = len(self.log) + 1
        ent = {"k": k, "point": point, "y": [float(t) for t in point.floatVariables], "holder_in": functionValue}
        self.log.append(ent)
        if self.on_call is not None:
            self.on_call(k)
        if self.fault is not None and self.fault[0] == k:
            ent["exc"] = type(self.fault[1]).__name__
            raise self.fault[1]
        try:
            r = self.inner.Calculate(point, functionValue)
        except BaseException as e:      # noqa: B902  (an objective may raise anything)
            ent["exc"] = type(e).__name__
            raise
        ent["holder_out"] = r
        ent["value"] = float(r.value)
        ent["y_after"] = [float(t) for t in point.floatVariables]
        return r


def raw_value(problem, y):
    """Evaluate the unwrapped objective at y (used to check 'reported value = objective at reported point')."""
    inner = problem.inner if isinstance(problem, RecProblem) else problem
    fv = FunctionValue()
    p = Point(np.array(y, dtype=np.double), [])
    return float(inner.Calculate(p, fv).value)


# ------------------------------------------------------------------ snapshots
def qinf(v):
    v = float(v)
    if v == float("inf"):
        return "inf"
    if v == float("-inf"):
        return "-inf"
    return q(v)


def snapshot_search(solver, full=True):
    """Public view of the search information: iteration order, getters, links, count."""
    items = []
    sd = solver.searchData
    objs = []
    if sd.GetCount() == 0:
        # before the first iteration the container is empty (iterating it raises StopIteration out of __iter__:
        # outside every listed property's histories, see DESIGN section 5)
        return {"count": 0, "n": 0, "links": True, "items": [], "_objs": []}
    try:
        for it in sd:
            objs.append(it)
            if len(objs) > 200000:
                break
    except Exception as e:    # noqa: BLE001
        return {"error": type(e).__name__}
    n = len(objs)
    links_ok = True
    for i, it in enumerate(objs):
        l, r = it.GetLeft(), it.GetRight()
        if (l is not (objs[i - 1] if i > 0 else None)) or (r is not (objs[i + 1] if i + 1 < n else None)):
            links_ok = False
    if full:
        for it in objs:
            ev = it.GetIndex() >= 0
            items.append({
                "x": q(float(it.GetX())),
                "y": qv(it.GetY().floatVariables),
                "ev": bool(ev),
                "z": q(float(it.GetZ())) if ev else "none",
                "fv": q(float(it.functionValues[0].value)) if ev else "none",
                "d": qinf(it.delta),
            })
    return {"count": int(sd.GetCount()), "n": n, "links": links_ok, "items": items, "_objs": objs}


def snapshot_solution(sol, objs=None):
    bt = sol.bestTrials[0]
    fvs = bt.functionValues
    has = fvs is not None and len(fvs) > 0 and len(getattr(bt.point, "floatVariables", [])) > 0
    d = {
        "ntr": int(sol.numberOfGlobalTrials), "nloc": int(sol.numberOfLocalTrials), "acc": qinf(sol.solutionAccuracy),
        "has": bool(has),
        "by": qv(bt.point.floatVariables) if has else [],
        "bv": q(float(fvs[0].value)) if has else "none",
        "bx": "none",
    }
    if objs is not None and has:
        for it in objs:
            if it is bt:
                d["bx"] = q(float(it.GetX()))
    return d


class RecListener(Listener):
    """Records every notification with a snapshot taken inside the callback."""

    def __init__(self, run, full=True):
        self.run = run
        self.full = full

    def BeforeMethodStart(self, method):
        self.run.emit({"ev": "cb", "kind": "before", "ncalc": len(self.run.rp.log)})

    def OnEndIteration(self, savedNewPoints, solution):
        snap = snapshot_search(self.run.solver, self.full)
        objs = snap.pop("_objs", None)
        self.run.flush_trials(objs)
        # the listener keeps the list it was given (for later processing): it must still hold this call's trials when read again
        self.run.kept.append((savedNewPoints, [float(p.GetX()) for p in savedNewPoints]))
        self.run.emit({"ev": "cb", "kind": "enditer",
                       "newx": [q(float(p.GetX())) for p in savedNewPoints],
                       "sol": snapshot_solution(solution, objs), "snap": snap})

    def OnMethodStop(self, searchData, solution, status):
        snap = snapshot_search(self.run.solver, False)
        objs = snap.pop("_objs", None)
        self.run.flush_trials(objs)
        self.run.emit({"ev": "cb", "kind": "stop", "status": bool(status),
                       "sol": snapshot_solution(solution, objs), "same_sd": searchData is self.run.solver.searchData})


class SharedRecListener(Listener):
    """ONE listener object attached to several solvers (a console or recording listener reused for a series of runs): every
    notification is recorded in the run of the solver it came from."""

    def __init__(self, runs, full=False):
        self.runs = runs
        self.full = full

    def _run(self, pred):
        for r in self.runs:
            if pred(r):
                return r
        return None

    def BeforeMethodStart(self, method):
        r = self._run(lambda x: x.solver.method is method)
        if r is not None:
            RecListener.BeforeMethodStart(RecListener(r, self.full), method)

    def OnEndIteration(self, savedNewPoints, solution):
        r = self._run(lambda x: x.solver.GetResults() is solution)
        if r is not None:
            RecListener.OnEndIteration(RecListener(r, self.full), savedNewPoints, solution)

    def OnMethodStop(self, searchData, solution, status):
        r = self._run(lambda x: x.solver.searchData is searchData)
        if r is not None:
            RecListener.OnMethodStop(RecListener(r, self.full), searchData, solution, status)


LISTENER_SHAPES = ("direct", "via-base", "mixin", "split")


def partial_listener(run, subset, full=True, shape="direct"):
    """A listener class derived from the base Listener that overrides exactly the callbacks in `subset`
    (the others stay the base-class no-ops) and records what it is told.  shape: where in the class hierarchy the overriding
    methods live - in the listener's own class ("direct"), in an intermediate class the listener's class derives from without
    adding anything ("via-base"), in a mixin listed before Listener ("mixin"), or partly in an intermediate class and partly in
    the leaf ("split").  All of them are listeners derived from the base class that override the callbacks in `subset`."""
    full_cls = RecListener
    names = {"before": "BeforeMethodStart", "enditer": "OnEndIteration", "stop": "OnMethodStop"}
    meths = {names[k]: getattr(full_cls, names[k]) for k in subset}
    tag = "_".join(sorted(subset)) or "none"
    if shape == "via-base":
        base = type("RecBase_" + tag, (Listener,), dict(meths, __init__=full_cls.__init__))
        cls = type("LeafRecListener_" + tag, (base,), {})
    elif shape == "mixin":
        mixin = type("RecMixin_" + tag, (object,), dict(meths))
        cls = type("MixedRecListener_" + tag, (mixin, Listener), {"__init__": full_cls.__init__})
    elif shape == "split":
        keys = sorted(meths)
        base = type("RecBase_" + tag, (Listener,), dict({k: meths[k] for k in keys[::2]}, __init__=full_cls.__init__))
        cls = type("SplitRecListener_" + tag, (base,), {k: meths[k] for k in keys[1::2]})
    else:
        cls = type("PartialRecListener_" + tag, (Listener,), dict(meths, __init__=full_cls.__init__))
    return cls(run, full)


def _exc_info(e):
    import os
    import traceback
    tb = traceback.extract_tb(e.__traceback__)
    return {"type": type(e).__name__, "msg": str(e)[:200], "where": ["%s:%d" % (os.path.basename(t.filename), t.lineno) for t in tb][-4:]}


class TwinListener(Listener):
    """Two distinct listener objects that compare EQUAL (value semantics, as a dataclass would have): each is a listener of its own and
    each must be told everything."""

    def __init__(self):
        self.counts = {"before": 0, "enditer": 0, "stop": 0}

    def __eq__(self, other):
        return isinstance(other, TwinListener)

    def __hash__(self):
        return 17

    def BeforeMethodStart(self, method):
        self.counts["before"] += 1

    def OnEndIteration(self, savedNewPoints, solution):
        self.counts["enditer"] += 1

    def OnMethodStop(self, searchData, solution, status):
        self.counts["stop"] += 1


class SolverRun:
    """One solver instance driven through its public API, everything observable logged as events."""

    _tid = itertools.count(1)

    def __init__(self, problem, r=2.0, eps=0.01, limit=200, m=10, refine=False, fault=None, listener="rec",
                 extra_listeners=(), tag="", full_snap=True, events=None, cbs=("before", "enditer", "stop"),
                 extra_first=False, probing=False, lip=None, fmin=None, params=None, judge=(0, 1), lshape=None):
        # judge = (from, stride): the arg-max clause (all intervals compared - the costly one) is judged at every trial by default; very long
        # runs judge it from trial `from` on at every `stride`-th trial (the state is tracked at every trial all the same)
        self.tid = next(SolverRun._tid)
        self.events = events if events is not None else []
        self.rp = RecProblem(problem, fault=fault)
        # params: an existing SolverParameters object to be shared with other solvers (a legitimate use of the API)
        self.params = params if params is not None else SolverParameters(eps=eps, r=r, itersLimit=limit, evolventDensity=m, refineSolution=refine)
        self.n = int(self.rp.numberOfFloatVariables)
        if params is None and refine and self.tid % 3 == 0:
            # SolverParameters.startPoint is documented and (in the pinned tree) not consumed: every third refining run sets it to a point
            # far from where the search will converge - the listed properties speak of the best global-phase trial, not of this point
            lo_, up_ = self.rp.lowerBoundOfFloatVariables, self.rp.upperBoundOfFloatVariables
            frac = (0.93, 0.07, 0.5)[(self.tid // 3) % 3]
            self.params.startPoint = Point(np.array([float(a) + frac * (float(b) - float(a)) for a, b in zip(lo_, up_)], dtype=np.double), [])
        self.full_snap = full_snap
        self.kept = []
        self.flushed = 0
        # the box at construction time is what the solver works on: in every fifth plain run the caller overwrites the bounds arrays
        # of its Problem object right after the Solver was built (re-using the object for the next study)
        self.lo0 = [float(t) for t in self.rp.lowerBoundOfFloatVariables]
        self.up0 = [float(t) for t in self.rp.upperBoundOfFloatVariables]
        scribble = (not refine) and not extra_listeners and params is None and self.tid % 5 == 0
        if scribble:
            self.rp.lowerBoundOfFloatVariables = np.array(self.lo0, dtype=np.double)      # this run's own arrays (the inner problem may be shared)
            self.rp.upperBoundOfFloatVariables = np.array(self.up0, dtype=np.double)
        self.solver = Solver(self.rp, parameters=self.params)
        self.listener = None
        self.cbs = list(cbs) if listener == "rec" else []
        if extra_first:
            for l in extra_listeners:
                self.solver.AddListener(l)
        if listener == "rec":
            # the class shape of the recording listener rotates (see partial_listener): most runs use the plain class
            shape = lshape or ("direct", "direct", "direct", "via-base", "direct", "mixin", "direct", "split")[self.tid % 8]
            self.listener = RecListener(self, full=full_snap) if (len(self.cbs) == 3 and shape == "direct") \
                else partial_listener(self, self.cbs, full_snap, shape)
            self.solver.AddListener(self.listener)
        if not extra_first:
            for l in extra_listeners:
                self.solver.AddListener(l)
        if scribble:
            self.rp.lowerBoundOfFloatVariables[:] = self.rp.lowerBoundOfFloatVariables * 3.0 + 17.0
            self.rp.upperBoundOfFloatVariables[:] = self.rp.upperBoundOfFloatVariables * 3.0 + 29.0
        # every fourth run with a recording listener also carries two listeners that compare equal
        self.twins = []
        if listener == "rec" and self.tid % 4 == 1:
            self.twins = [TwinListener(), TwinListener()]
            for t in self.twins:
                self.solver.AddListener(t)
        self.emit({"ev": "init", "n": self.n, "m": int(m), "lo": qv(self.lo0),
                   "up": qv(self.up0), "r": q(float(r)), "eps": q(float(eps)),
                   "limit": int(limit), "refine": bool(refine), "tag": tag, "cbs": self.cbs, "probing": bool(probing),
                   "lip": q(float(lip)) if lip is not None else "none", "fmin": q(float(fmin)) if fmin is not None else "none",
                   "jfrom": int(judge[0]), "jstride": int(judge[1])})

    def emit(self, e):
        if _NONFINITE:
            e = {"ev": "malformed", "of": e.get("ev"), "what": "non-finite value " + _NONFINITE[0]}
            del _NONFINITE[:]
        e["tid"] = self.tid
        e["id"] = len(self.events) + 1
        self.events.append(e)

    # ---- joining the Calculate log with the items of the search information (by point identity)
    def flush_trials(self, objs):
        """Emit trial / fail / local events for Calculate calls not yet reported, in call order."""
        bypoint, bycoord, byholder = {}, {}, {}
        if objs is not None:
            for it in objs:
                bypoint[id(it.GetY())] = it
                try:
                    byholder[id(it.functionValues[0])] = it
                except Exception:       # noqa: BLE001
                    pass
                if it.GetIndex() >= 0:
                    bycoord.setdefault(tuple(float(t) for t in it.GetY().floatVariables), []).append(it)
        self.matched = getattr(self, "matched", set())
        log = self.rp.log
        pending = log[self.flushed:]
        joined = {}
        # pass 1: by identity of the point object; pass 2: the solver may hand the objective a copy of the trial's point - join through
        # the value holder it passed; pass 3: failing both, by coordinates among the items still unmatched (a painter's own
        # evaluation at a trial's coordinates is told apart in passes 1-2; pass 3 is ambiguous if several trials share a cell)
        for ent in pending:
            it = bypoint.get(id(ent["point"]))
            if it is not None:
                joined[id(ent)] = it
                self.matched.add(id(it))
        for ent in pending:
            if id(ent) in joined or "exc" in ent:
                continue
            for hk in ("holder_in", "holder_out"):      # the holder the solver passed, or the one the problem returned (and the solver stored)
                cand = byholder.get(id(ent.get(hk))) if ent.get(hk) is not None else None
                if cand is not None and cand.GetIndex() >= 0 and id(cand) not in self.matched \
                        and tuple(float(t) for t in cand.GetY().floatVariables) == tuple(ent["y"]):
                    joined[id(ent)] = cand
                    self.matched.add(id(cand))
                    break
        for ent in pending:
            if id(ent) in joined or "exc" in ent:
                continue
            for cand in bycoord.get(tuple(ent["y"]), []):
                if id(cand) not in self.matched:
                    joined[id(ent)] = cand
                    self.matched.add(id(cand))
                    break
        while self.flushed < len(log):
            ent = log[self.flushed]
            self.flushed += 1
            it = joined.get(id(ent))
            if "exc" in ent:
                self.emit({"ev": "fail", "ylog": qv(ent["y"]), "exc": ent["exc"], "k": ent["k"], "xinv": self.inverse_of(ent["y"])})
            elif it is None:
                self.emit({"ev": "local", "ylog": qv(ent["y"]), "zlog": q(ent["value"]), "k": ent["k"],
                           "yafter": qv(ent["y_after"])})
            else:
                self.emit({"ev": "trial", "k": ent["k"], "x": q(float(it.GetX())), "y": qv(it.GetY().floatVariables),
                           "ylog": qv(ent["y"]), "yafter": qv(ent["y_after"]), "z": q(float(it.GetZ())),
                           "zlog": q(ent["value"]), "fv": q(float(it.functionValues[0].value)),
                           "same_holder": ent["holder_out"] is ent["holder_in"] and it.functionValues[0] is ent["holder_out"],
                           "xf": repr(float(it.GetX()))})

    def inverse_of(self, y):
        """curve coordinate (left end of the subinterval) of an evaluated point, through a separate Evolvent object (public API)"""
        try:
            from iOpt.evolvent.evolvent import Evolvent
            if getattr(self, "_inv", None) is None:
                self._inv = Evolvent(np.array(self.lo0, dtype=np.double), np.array(self.up0, dtype=np.double), self.n,
                                     int(self.params.evolventDensity))
            return q(float(self._inv.GetInverseImage(np.array(y, dtype=np.double))))
        except Exception:       # noqa: BLE001
            return "none"

    def _after_call(self, name, extra):
        snap = snapshot_search(self.solver, self.full_snap)
        objs = snap.pop("_objs", None)
        self.flush_trials(objs)
        sol = self.solver.GetResults()
        e = {"ev": "ret", "name": name, "snap": snap, "sol": snapshot_solution(sol, objs), "ncalc": len(self.rp.log), "kept_ok": self.kept_ok() and self.twins_ok()}
        e.update(extra)
        self.emit(e)
        return sol

    def twins_ok(self):
        """both listeners that compare equal were told the same, and something once the search has begun"""
        if not self.twins:
            return True
        a, b = self.twins[0].counts, self.twins[1].counts
        return a == b and (a["before"] == 1 or len(self.rp.log) == 0)

    def kept_ok(self):
        """the lists handed to OnEndIteration so far, read again: each still holds exactly the trials of its own call"""
        try:
            return all([float(p.GetX()) for p in lst] == xs for lst, xs in self.kept)
        except Exception:       # noqa: BLE001
            return False

    def dgi(self, k=1):
        self.emit({"ev": "call", "name": "dgi", "k": int(k)})
        buf = io.StringIO()
        exc = None
        with contextlib.redirect_stdout(buf):
            try:
                self.solver.DoGlobalIteration(k)
            except BaseException as e:      # noqa: B902
                exc = type(e).__name__
                self.last_exc = _exc_info(e)
        guard = "outside of interval" in buf.getvalue() or bool(exc and "outside of interval" in (self.last_exc or {}).get("msg", ""))
        return self._after_call("dgi", {"raised": exc or "none", "k": int(k), "_exc": getattr(self, "last_exc", None) if exc else None,
                                        "guard": guard})

    def solve(self):
        self.emit({"ev": "call", "name": "solve", "k": 0})
        buf = io.StringIO()
        exc, ret = None, None
        with contextlib.redirect_stdout(buf):
            try:
                ret = self.solver.Solve()
            except BaseException as e:      # noqa: B902
                exc = type(e).__name__
                self.last_exc = _exc_info(e)
        out = buf.getvalue()
        extra = {"guard": "outside of interval" in out,
                 "_exc": getattr(self, "last_exc", None) if exc else None, "raised": exc or "none", "printed_exc": "Exception was thrown" in out,
                 "ret_is_results": ret is self.solver.GetResults() if ret is not None else False}
        sol = self._after_call("solve", extra)
        # reported value = objective at the reported point (re-evaluated through the unwrapped objective)
        last = self.events[-1]
        if last["sol"]["has"]:
            try:
                last["bf"] = q(raw_value(self.rp, [float(t) for t in sol.bestTrials[0].point.floatVariables]))
            except Exception:   # noqa: BLE001
                last["bf"] = "none"
        else:
            last["bf"] = "none"
        self.stdout = out
        return ret

    def localref(self, number=1):
        """public call DoLocalRefinement(number)"""
        # (the refinement reads the Problem's bounds at call time: a caller who had overwritten them puts them back first)
        self.rp.lowerBoundOfFloatVariables[:] = self.lo0
        self.rp.upperBoundOfFloatVariables[:] = self.up0
        self.emit({"ev": "call", "name": "localref", "k": int(number)})
        buf = io.StringIO()
        exc = None
        with contextlib.redirect_stdout(buf):
            try:
                self.solver.DoLocalRefinement(number)
            except BaseException as e:      # noqa: B902
                exc = type(e).__name__
        sol = self._after_call("localref", {"raised": exc or "none", "k": int(number)})
        last = self.events[-1]
        try:
            last["bf"] = q(raw_value(self.rp, [float(t) for t in sol.bestTrials[0].point.floatVariables])) if last["sol"]["has"] else "none"
        except Exception:   # noqa: BLE001
            last["bf"] = "none"

    def set_params(self, limit=None, eps=None):
        """the user changes the SolverParameters object the solver was built with (a larger budget, another accuracy) to continue"""
        if limit is not None:
            self.params.itersLimit = int(limit)
        if eps is not None:
            self.params.eps = float(eps)
        self.emit({"ev": "setparams", "limit": int(self.params.itersLimit), "eps": q(float(self.params.eps))})

    def observe(self):
        """no call into the solver except GetResults(): what the user sees of this solver right now"""
        self.emit({"ev": "call", "name": "observe", "k": 0})
        return self._after_call("observe", {"raised": "none", "k": 0})

    def trial_xs(self):
        return [e["x"] for e in self.events if e["ev"] == "trial"]

    def trial_ys(self):
        return [tuple(ent["y"]) for ent in self.rp.log if "exc" not in ent]


# ------------------------------------------------------------------ a zoo of objectives
def objective_zoo(rng, n, lo, up):
    """Returns (name, f) with finite values; includes plateaus, steps, monotone and oscillating functions,
    minima outside or on the boundary of the box, and exact ties."""
    c = [rng.uniform(a, b) for a, b in zip(lo, up)]
    w = [b - a for a, b in zip(lo, up)]
    out_c = [a - 0.3 * (b - a) if rng.random() < 0.5 else b + 0.2 * (b - a) for a, b in zip(lo, up)]
    kind = rng.choice(["quad", "quad_out", "rastrigin", "cone", "cones", "linear", "const", "steps", "plateau",
                       "sin", "absx", "neg_norm", "twovalue", "big_offset", "tiny", "ridge", "steep"])
    if kind == "steep":
        # values and slopes of magnitude 1e6 .. 1e9 (a cost in micro-units): any absolute cap on slopes or values in the code shows here
        amp = 10.0 ** rng.uniform(6, 9)
        ph = rng.uniform(0, 6.28)
        return kind, lambda y: amp * sum(math.sin(3.0 * (t - ci) / wi + ph) + 0.3 * ((t - ci) / wi) ** 2 for t, ci, wi in zip(y, c, w))
    if kind == "quad":
        return kind, lambda y: sum(((t - ci) / wi) ** 2 for t, ci, wi in zip(y, c, w))
    if kind == "quad_out":
        return kind, lambda y: sum(((t - ci) / wi) ** 2 for t, ci, wi in zip(y, out_c, w))
    if kind == "rastrigin":
        return kind, lambda y: sum(((t - ci) / wi * 4) ** 2 - 3 * math.cos(2 * math.pi * (t - ci) / wi * 4) for t, ci, wi in zip(y, c, w))
    if kind == "cone":
        L = rng.uniform(0.2, 6)
        return kind, lambda y: L * math.sqrt(sum(((t - ci) / wi) ** 2 for t, ci, wi in zip(y, c, w)))
    if kind == "cones":
        cs = [[rng.uniform(a, b) for a, b in zip(lo, up)] for _ in range(3)]
        hs = [rng.uniform(-1, 1) for _ in range(3)]
        Ls = [rng.uniform(0.5, 5) for _ in range(3)]
        return kind, lambda y: min(h + L * math.sqrt(sum(((t - ci) / wi) ** 2 for t, ci, wi in zip(y, cc, w)))
                                   for h, L, cc in zip(hs, Ls, cs))
    if kind == "linear":
        g = [rng.uniform(-2, 2) for _ in range(n)]
        return kind, lambda y: sum(gi * (t - a) / wi for gi, t, a, wi in zip(g, y, lo, w))
    if kind == "const":
        v = rng.choice([0.0, 1.0, -3.5])
        return kind, lambda y: v
    if kind == "steps":
        k = rng.choice([2, 3, 5])
        return kind, lambda y: float(sum(math.floor(k * (t - a) / wi) for t, a, wi in zip(y, lo, w)))
    if kind == "plateau":
        return kind, lambda y: max(0.0, sum(((t - ci) / wi) ** 2 for t, ci, wi in zip(y, c, w)) - 0.05)
    if kind == "sin":
        fr = rng.uniform(2, 9)
        return kind, lambda y: sum(math.sin(fr * (t - a) / wi) + 0.3 * (t - a) / wi for t, a, wi in zip(y, lo, w))
    if kind == "absx":
        return kind, lambda y: sum(abs((t - ci) / wi) for t, ci, wi in zip(y, c, w))
    if kind == "neg_norm":
        return kind, lambda y: -math.sqrt(sum(((t - ci) / wi) ** 2 for t, ci, wi in zip(y, c, w)))
    if kind == "twovalue":
        return kind, lambda y: 1.0 if sum((t - ci) / wi for t, ci, wi in zip(y, c, w)) > 0 else 0.0
    if kind == "big_offset":
        return kind, lambda y: 1e6 + 0.2 * sum(((t - ci) / wi * 3) ** 2 - math.cos(5 * (t - ci) / wi * 3) for t, ci, wi in zip(y, c, w))
    if kind == "tiny":
        return kind, lambda y: 1e-3 * sum(abs((t - ci) / wi) for t, ci, wi in zip(y, c, w))
    return "ridge", lambda y: abs(sum((t - ci) / wi for t, ci, wi in zip(y, c, w))) + 0.1 * sum(((t - ci) / wi) ** 2 for t, ci, wi in zip(y, c, w))


def rand_box_solver(rng, n):
    from .evolvent_drv import rand_box
    # (now and then a huge box, a tiny one at the origin, or sides short relative to their distance from the origin)
    return rand_box(rng, n, rng.choice(["unit", "sym", "shift", "mixed", "mixed"] * 4 + ["wide", "tiny0", "narrowfar"]))


def random_problem(rng, n=None):
    n = n or rng.choice([1, 1, 2, 2, 3, 4, 5])
    lo, up = rand_box_solver(rng, n)
    name, f = objective_zoo(rng, n, lo, up)
    return FnProblem(n, lo, up, f, name, ret="fresh" if rng.random() < 0.15 else "same")
