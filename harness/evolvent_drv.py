"""Drive the real Evolvent object and record what it returns as trace events for EvolventTrace.tla."""
import itertools
import math

import numpy as np

from .common import q, qv, use_repo

use_repo()
from iOpt.evolvent.evolvent import Evolvent  # noqa: E402


def rand_box(rng, n, kind=None):
    """Boxes with lower < upper; width at least 2^-10 of the magnitudes (see DESIGN 2.2)."""
    kind = kind or rng.choice(["unit", "sym", "shift", "wide", "mixed", "mixed", "tiny0", "narrowfar"])
    lo, up = [], []
    for _ in range(n):
        if kind == "unit":
            a, b = 0.0, 1.0
        elif kind == "sym":
            a, b = -1.0, 1.0
        elif kind == "shift":
            c = rng.uniform(-50, 50)
            w = rng.uniform(0.5, 4.0)
            a, b = c - w / 2, c + w / 2
        elif kind == "wide":
            a, b = -rng.uniform(10, 1000), rng.uniform(10, 1000)
        elif kind == "tiny0":
            # a tiny box containing or touching the origin (sides 1e-9 .. 1e-6): absolute thresholds in the code would show here
            w = 10.0 ** -rng.uniform(6, 9)
            a = -w * rng.choice([0.0, 1.0, rng.random()])
            b = a + w
        elif kind == "narrowfar":
            # a side that is short relative to its distance from the origin (relative width 4e-6 .. 3e-4): relative thresholds would show here
            c = rng.choice([-1, 1]) * 10.0 ** rng.uniform(2, 5.5)
            w = abs(c) * 10.0 ** -rng.uniform(3.5, 5.4)
            a, b = c, c + w
        else:
            c = rng.choice([0.0, rng.uniform(-5, 5), rng.uniform(-100, 100)])
            w = rng.choice([rng.uniform(0.2, 3), rng.uniform(1e-2, 1), rng.uniform(3, 60)])
            a, b = c - w * rng.random(), c + w * rng.random() + w * 0.01
        lo.append(float(a))
        up.append(float(b))
    return lo, up


def special_xs(rng, n, m, count):
    """Curve coordinates that stress digit extraction: grid points of every level, their predecessors,
    the end points, points within 1e-9 and 1e-12 of 1 and of level boundaries, random points."""
    nm = n * m
    xs = [0.0, 1.0, 0.5, math.nextafter(1.0, 0.0), 1.0 - 2.0 ** -min(52, nm), 1.0 - 2.0 ** -min(52, nm + 3)]
    xs += [1.0 - 1e-9, 1.0 - 1e-10, 1.0 - 3e-12, 1.0 - 1e-15]
    for _ in range(count):
        r = rng.random()
        if r < 0.25:
            xs.append(rng.random())
        elif r < 0.5:
            j = rng.randint(1, m)
            k = rng.randrange(0, 2 ** min(n * j, 52))
            xs.append(k / 2.0 ** min(n * j, 52))
        elif r < 0.7:
            j = rng.randint(1, m)
            k = rng.randrange(1, 2 ** min(n * j, 52) + 1)
            b = k / 2.0 ** min(n * j, 52)
            xs.append(math.nextafter(b, 0.0))
        elif r < 0.85:
            j = rng.randint(1, m)
            k = rng.randrange(1, 2 ** min(n * j, 52) + 1)
            b = k / 2.0 ** min(n * j, 52)
            xs.append(max(0.0, b - rng.choice([1e-9, 1e-12, 1e-13, 2.0 ** -45, 2.0 ** -50])))
        else:
            # long runs of the maximal digit / zero digit
            j = rng.randint(1, m)
            k = rng.randrange(0, 2 ** min(n * j, 52))
            base = k / 2.0 ** min(n * j, 52)
            xs.append(min(math.nextafter(1.0, 0.0), base + rng.choice([0.0, 2.0 ** -min(52, nm)])))
    return [x for x in xs if 0.0 <= x <= 1.0]


_BKIND = itertools.count()


def typed_bounds(lo, up, kind):
    """the same bounds in another representation: float64 arrays, Python lists of floats, and - for integral bounds such as [-1, 1]
    (what the repository's tests and GKLS pass) - lists of Python ints or int64 arrays"""
    integral = all(float(t).is_integer() for t in list(lo) + list(up))
    if kind == "ints" and integral:
        return [int(t) for t in lo], [int(t) for t in up]
    if kind == "int64" and integral:
        return np.array([int(t) for t in lo], dtype=np.int64), np.array([int(t) for t in up], dtype=np.int64)
    if kind in ("list", "ints"):
        return [float(t) for t in lo], [float(t) for t in up]
    return np.array(lo, dtype=np.double), np.array(up, dtype=np.double)


def scribbled(lo, up):
    """bounds for the Evolvent in rotating representations; returns (lo, up, scribble) - call scribble() after handing them over:
    the caller reuses / overwrites its own arrays or lists, the configured bounds are the values at configuration time"""
    la, ua = typed_bounds(lo, up, ["f64", "f64", "list", "ints", "f64", "int64"][next(_BKIND) % 6])

    def scribble():
        if isinstance(la, list):
            la[:] = [t * 3 + 17 for t in la]
            ua[:] = [t * 2 - 5 for t in ua]
        elif la.dtype == np.int64:
            la[:] = la * 3 + 17
            ua[:] = ua * 2 - 5
        else:
            la[:] = la * 3.0 + 17.0
            ua[:] = ua * 0.5 - 5.0
    return la, ua, scribble


def _total(method):
    """a query of the real object that raises, or returns a non-finite number, is a recorded outcome (clauses QueryRaises / NonFinite)
    of the event stream - not a crash of the recorder"""
    import functools

    @functools.wraps(method)
    def wrapper(self, *a, **kw):
        try:
            return method(self, *a, **kw)
        except ValueError as ex:
            if "non-finite" not in str(ex):
                self.events.append(dict(self._base("raises"), of=method.__name__, exc=type(ex).__name__, xf=repr(a[:1])))
            else:
                self.events.append(dict(self._base("nonfinite"), of=method.__name__, xf=repr(a[:1])))
        except Exception as ex:      # noqa: BLE001
            if kw.get("arg", "array") != "array":
                # the argument was handed over in another representation than the documented float64 array: a tree that rejects it is noted
                NOTES.append("%s(argument as %s) raised %s" % (method.__name__, kw.get("arg"), type(ex).__name__))
                return None
            self.events.append(dict(self._base("raises"), of=method.__name__, exc=type(ex).__name__, xf=repr(a[:1])))
        return None
    return wrapper


NOTES = []       # representations the tree under test does not accept (the documented type is a float64 array): noted, never judged


def make_evolvent(la, ua, n, m, lo, up):
    """Evolvent built from bounds in the given representation; if that representation is rejected, from float64 arrays"""
    try:
        return Evolvent(la, ua, n, m)
    except Exception as ex:      # noqa: BLE001
        if isinstance(la, np.ndarray) and la.dtype == np.double:
            raise
        NOTES.append("Evolvent(bounds as %s) raised %s: float64 arrays used instead" % (type(la).__name__, type(ex).__name__))
        return Evolvent(np.array(lo, dtype=np.double), np.array(up, dtype=np.double), n, m)


def set_bounds(ev, la, ua, lo, up):
    try:
        ev.SetBounds(la, ua)
    except Exception as ex:      # noqa: BLE001
        if isinstance(la, np.ndarray) and la.dtype == np.double:
            raise
        NOTES.append("SetBounds(bounds as %s) raised %s: float64 arrays used instead" % (type(la).__name__, type(ex).__name__))
        ev.SetBounds(np.array(lo, dtype=np.double), np.array(up, dtype=np.double))


class EvoRecorder:
    """One real Evolvent object; every query is logged as an event (exact rationals)."""

    def __init__(self, n, m, lo, up, events, idgen, rebound_from=None):
        self.n, self.m = n, m
        if rebound_from is not None:
            lo0, up0 = typed_bounds(rebound_from[0], rebound_from[1], ["ints", "f64", "int64", "list"][next(_BKIND) % 4])
            self.ev = make_evolvent(lo0, up0, n, m, rebound_from[0], rebound_from[1])      # (integral first bounds typed as ints: the bounds set afterwards are what counts)
            la, ua, scribble = scribbled(lo, up)
            set_bounds(self.ev, la, ua, lo, up)
            scribble()
        else:
            la, ua, scribble = scribbled(lo, up)
            self.ev = make_evolvent(la, ua, n, m, lo, up)
            scribble()
        self.lo, self.up = list(lo), list(up)
        self.events = events
        self.idgen = idgen

    def _base(self, op):
        return {"id": next(self.idgen), "op": op, "n": self.n, "m": self.m, "lo": qv(self.lo), "up": qv(self.up)}

    def set_bounds(self, lo, up):
        la, ua, scribble = scribbled(lo, up)
        set_bounds(self.ev, la, ua, lo, up)
        scribble()
        self.lo, self.up = list(lo), list(up)

    @_total
    def image(self, x, log=True):
        return self._image(x, log)

    def _image(self, x, log=True):
        y = self.ev.GetImage(x)
        y = [float(t) for t in y]
        if log:
            e = self._base("image")
            e.update(x=q(x), y=qv(y), xf=repr(x))
            self.events.append(e)
        return y

    @_total
    def inverse(self, y, via="inv", arg="array", log=True):
        return self._inverse(y, via, arg, log)

    def _inverse(self, y, via="inv", arg="array", log=True):
        if arg == "list":
            a = [float(t) for t in y]
        elif arg == "tuple":
            a = tuple(float(t) for t in y)
        elif arg == "intlist":          # y must have integer coordinates: the same point, typed as Python ints
            a = [int(t) for t in y]
        elif arg == "int64":
            a = np.array([int(t) for t in y], dtype=np.int64)
        elif arg == "int32":
            a = np.array([int(t) for t in y], dtype=np.int32)
        else:
            a = np.array(y, dtype=np.double)
        x = self.ev.GetInverseImage(a) if via == "inv" else self.ev.GetPreimages(a)
        x = float(x)
        if log:
            e = self._base("inverse")
            e.update(y=qv(y), x=q(x), via=via, arg=arg)
            self.events.append(e)
        return x

    @_total
    def roundtrip(self, x, via="inv"):
        y = self._image(x)
        x2 = self._inverse(y, via=via, log=False)
        e = self._base("roundtrip")
        e.update(x=q(x), x2=q(x2), xf=repr(x))
        self.events.append(e)

    @_total
    def pair(self, x1, x2):
        y1 = self._image(x1, log=False)
        y2 = self._image(x2, log=False)
        e = self._base("pair")
        e.update(x1=q(x1), x2=q(x2), y1=qv(y1), y2=qv(y2), xf=[repr(x1), repr(x2)])
        self.events.append(e)

    @_total
    def adjacent(self, i):
        """images of subintervals i and i+1 (any interior points)"""
        nm = self.n * self.m
        x1 = (i + 0.5) / 2.0 ** nm if nm <= 50 else i / 2.0 ** nm
        x2 = (i + 1.5) / 2.0 ** nm if nm <= 50 else (i + 1) / 2.0 ** nm
        y1 = self._image(x1, log=False)
        y2 = self._image(x2, log=False)
        e = self._base("adjacent")
        e.update(y1=qv(y1), y2=qv(y2), i=str(i))
        self.events.append(e)


def nest_event(n, m, lo, up, x, events, idgen):
    la, ua = np.array(lo, dtype=np.double), np.array(up, dtype=np.double)
    yc = [float(t) for t in Evolvent(la, ua, n, m).GetImage(x)]
    yf = [float(t) for t in Evolvent(la, ua, n, m + 1).GetImage(x)]
    events.append({"id": next(idgen), "op": "nest", "n": n, "m": m, "lo": qv(lo), "up": qv(up),
                   "yc": qv(yc), "yf": qv(yf), "xf": repr(x)})
