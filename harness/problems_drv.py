"""Recorder for the shipped benchmark problems: constructions (with the public metadata) and evaluations, logged as
ProblemTrace.tla events.  Values are encoded exactly."""
import itertools
import random as _r

import numpy as np

from .common import q, use_repo

use_repo()
from iOpt.trial import FunctionType, FunctionValue, Point  # noqa: E402


def _families():
    from iOpt.problems.GKLS import GKLS
    from iOpt.problems.grishagin import Grishagin
    from iOpt.problems.hill import Hill
    from iOpt.problems.rastrigin import Rastrigin
    from iOpt.problems.shekel import Shekel
    from iOpt.problems.shekel4 import Shekel4
    from iOpt.problems.stronginC3 import StronginC3
    from iOpt.problems.xsquared import XSquared
    return {
        "Hill": (lambda m: Hill(m), list(range(0, 1000))),
        "Shekel": (lambda m: Shekel(m), list(range(0, 1000))),
        "Shekel4": (lambda m: Shekel4(m), [1, 2, 3]),
        "Grishagin": (lambda m: Grishagin(m), list(range(1, 101))),
        "GKLS2": (lambda m: GKLS(2, m), list(range(1, 101))),
        "GKLS3": (lambda m: GKLS(3, m), list(range(1, 101))),
        "GKLS4": (lambda m: GKLS(4, m), list(range(1, 101))),
        "GKLS5": (lambda m: GKLS(5, m), list(range(1, 101))),
        "Rastrigin": (lambda m: Rastrigin(m), list(range(1, 9))),
        "XSquared": (lambda m: XSquared(m), list(range(1, 9))),
        "StronginC3": (lambda m: StronginC3(), [0]),
    }


FAMILIES = None


def families():
    global FAMILIES
    if FAMILIES is None:
        FAMILIES = _families()
    return FAMILIES


CHEAP = ["Hill", "Shekel", "Shekel4", "Rastrigin", "XSquared", "StronginC3"]
ALL = CHEAP + ["GKLS2", "GKLS3", "GKLS4", "GKLS5", "Grishagin"]


def qv(v):
    return [q(float(t)) for t in v]


def metadata(p):
    lo = [float(t) for t in p.lowerBoundOfFloatVariables]
    up = [float(t) for t in p.upperBoundOfFloatVariables]
    ko = p.knownOptimum
    hasopt = ko is not None and len(ko) >= 1 and ko[0] is not None and getattr(ko[0], "point", None) is not None
    opt, optv = [], "0"
    if hasopt:
        try:
            opt = qv(ko[0].point.floatVariables)
            optv = q(float(ko[0].functionValues[0].value))
        except Exception:   # noqa: BLE001
            hasopt = False
    return {"dim": int(getattr(p, "dimension", -1)), "nfloat": int(p.numberOfFloatVariables), "nnames": int(len(p.floatVariableNames)),
            "nlo": len(lo), "nup": len(up), "nobj": int(p.numberOfObjectives), "ncon": int(p.numberOfConstraints),
            "lo": qv(lo), "up": qv(up), "opt": opt, "optv": optv, "hasopt": bool(hasopt)}


def point_pool(fam, member, p, k=4, seed=0):
    """k fixed points of the box per (family, member): the declared optimum, a corner, pseudo-random interior points"""
    rng = _r.Random("%s/%s/%d" % (fam, member, seed))
    lo = [float(t) for t in p.lowerBoundOfFloatVariables]
    up = [float(t) for t in p.upperBoundOfFloatVariables]
    pts = []
    try:
        pts.append([float(t) for t in p.knownOptimum[0].point.floatVariables])
    except Exception:   # noqa: BLE001
        pass
    pts.append([a if rng.random() < 0.5 else b for a, b in zip(lo, up)])
    while len(pts) < k:
        pts.append([rng.uniform(a, b) for a, b in zip(lo, up)])
    return pts[:k]


class ProblemRec:
    _tid = itertools.count(1)

    def __init__(self, tag=""):
        self.tid = next(ProblemRec._tid)
        self.events = []
        self.insts = []
        self.tag = tag
        self.buffers = {}        # one reusable coordinate buffer (and Point) per dimension: callers may overwrite in place
        self.emit({"op": "reset"})

    def emit(self, e):
        e["tid"] = self.tid
        e["id"] = len(self.events) + 1
        self.events.append(e)

    def construct(self, fam, member, with_meta=True):
        try:
            p = families()[fam][0](member)
        except Exception as ex:      # noqa: BLE001
            self.insts.append((fam, member, None))
            self.emit({"op": "construct", "inst": len(self.insts), "fam": fam, "member": int(member), "raised": type(ex).__name__})
            return len(self.insts)
        self.insts.append((fam, member, p))
        e = {"op": "construct", "inst": len(self.insts), "fam": fam, "member": int(member), "raised": "none"}
        if with_meta:
            e["meta"] = metadata(p)
        self.emit(e)
        return len(self.insts)

    def eval(self, inst, y, fid="obj", reuse=False, holder="fresh", rep="f64"):
        fam, member, p = self.insts[inst - 1]
        if p is None:
            return None
        if reuse:
            n = len(y)
            if n not in self.buffers:
                arr = np.zeros(n, dtype=np.double)
                self.buffers[n] = (arr, Point(arr, []))
            arr, pt = self.buffers[n]
            arr[:] = y                       # the same array object, overwritten in place
        else:
            # the same point in another representation: Python list / tuple of floats; for integral coordinates also ints
            integral = all(float(t).is_integer() for t in y)
            if rep == "list" or (rep in ("ints", "int64") and not integral):
                arr = [float(t) for t in y]
            elif rep == "tuple":
                arr = tuple(float(t) for t in y)
            elif rep == "ints":
                arr = [int(t) for t in y]
            elif rep == "int64":
                arr = np.array([int(t) for t in y], dtype=np.int64)
            else:
                arr = np.array(y, dtype=np.double)
            pt = Point(arr, [])
        fv = FunctionValue() if fid == "obj" else FunctionValue(FunctionType.CONSTRAINT, fid)
        if holder == "prefilled":
            fv.value = 123.456                   # a holder that already carries a value (e.g. from an earlier evaluation)
        elif holder == "reused":
            key = (inst, str(fid))
            self.holders = getattr(self, "holders", {})
            fv = self.holders.setdefault(key, fv)     # one holder object per (instance, function), used again and again
        before = [float(t) for t in arr]
        try:
            r = p.Calculate(pt, fv)
        except Exception as ex:      # noqa: BLE001
            if rep != "f64" and not reuse:
                # the point was handed over in another representation than the documented float64 array and the tree under test
                # rejects it: noted, never judged (a wrong VALUE for such a point is judged)
                self.notes = getattr(self, "notes", [])
                self.notes.append("Calculate(point as %s) raised %s" % (rep, type(ex).__name__))
                return None
            self.emit({"op": "eval", "inst": inst, "fid": str(fid), "p": qv(before), "p_after": qv(pt.floatVariables),
                       "value": "raised:" + type(ex).__name__, "holder_value": "raised:" + type(ex).__name__, "same_holder": True,
                       "raised": type(ex).__name__, "reuse": bool(reuse)})
            return None
        try:
            val, hval, after = q(float(r.value)), q(float(fv.value)), qv(pt.floatVariables)
        except (ValueError, TypeError, AttributeError) as ex:
            # a non-finite or non-numeric value / point after the call: an outcome (clause EvalRaises), not a crash of the recorder
            self.emit({"op": "eval", "inst": inst, "fid": str(fid), "p": qv(before), "p_after": qv(before),
                       "value": "raised:NonFinite", "holder_value": "raised:NonFinite", "same_holder": True,
                       "raised": "NonFinite:" + type(ex).__name__, "reuse": bool(reuse)})
            return None
        self.emit({"op": "eval", "inst": inst, "fid": str(fid), "p": qv(before), "p_after": after,
                   "value": val, "holder_value": hval, "same_holder": r is fv, "raised": "none",
                   "reuse": bool(reuse)})
        return float(r.value)
