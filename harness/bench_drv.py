"""Records for Bench.tla: XSquared, Rastrigin (separability) and Shekel4 (branch-and-bound tree)."""
import random as _r

import numpy as np

from .common import q, use_repo

use_repo()
from iOpt.trial import FunctionValue, Point  # noqa: E402


def qv(v):
    return [q(float(t)) for t in v]


def evalf(p, y):
    return float(p.Calculate(Point(np.array(y, dtype=np.double), []), FunctionValue()).value)


def meta(p):
    ko = p.knownOptimum[0]
    return {"lo": qv(p.lowerBoundOfFloatVariables), "up": qv(p.upperBoundOfFloatVariables),
            "opt": qv(ko.point.floatVariables), "optv": q(float(ko.functionValues[0].value))}


def sample_points(rng, p, k):
    lo = [float(t) for t in p.lowerBoundOfFloatVariables]
    up = [float(t) for t in p.upperBoundOfFloatVariables]
    pts = [[rng.uniform(a, b) for a, b in zip(lo, up)] for _ in range(k)]
    pts += [lo, up, [float(t) for t in p.knownOptimum[0].point.floatVariables]]
    return pts


def xsquared_record(n, rng):
    from iOpt.problems.xsquared import XSquared
    p = XSquared(n)
    _sibling = XSquared(n % 8 + 1)
    r = {"kind": "xsquared", "n": n, "pts": [[qv(y), q(evalf(p, y))] for y in sample_points(rng, p, 30)]}
    r.update(meta(p))
    return r


def rastrigin_record(n, rng):
    from iOpt.problems.rastrigin import Rastrigin
    p, g = Rastrigin(n), Rastrigin(1)
    _sibling = Rastrigin(n % 8 + 1)
    r = {"kind": "rastrigin", "n": n,
         "pts": [[qv(y), q(evalf(p, y)), [q(evalf(g, [t])) for t in y]] for y in sample_points(rng, p, 40)]}
    r.update(meta(p))
    return r


def shekel4_record(fn, rng, tvlow_rel=2e-3, delta_rel=5e-3, maxdepth=11):
    from iOpt.problems.shekel4 import Shekel4
    import iOpt.problems.Shekel4.shekel4_generation as g
    p = Shekel4(fn)
    _sibling = Shekel4(fn % 3 + 1)
    A = [[float(t) for t in row] for row in g.a]
    C = [float(t) for t in g.c]
    maxI = int(g.maxI[fn - 1])
    lo = [float(t) for t in p.lowerBoundOfFloatVariables]
    up = [float(t) for t in p.upperBoundOfFloatVariables]
    opt = [float(t) for t in p.knownOptimum[0].point.floatVariables]
    optv = float(p.knownOptimum[0].functionValues[0].value)
    fobs = evalf(p, opt)
    delta = delta_rel * (up[0] - lo[0])
    tvlow = tvlow_rel * max(1.0, abs(optv))

    def low(l, h):
        s = 0.0
        for i in range(maxI):
            d2 = 0.0
            for j in range(4):
                a = A[i][j]
                d = l[j] - a if a < l[j] else (a - h[j] if a > h[j] else 0.0)
                d2 += d * d
            s -= 1.0 / (d2 + C[i])
        return s
    nleaves = [0]
    # refutation screen (an observed value is a fact): the wells' centres and a few sample points; a value below the declared minimum by more
    # than the tolerance refutes the declaration at once - and spares a certificate search that cannot succeed
    cands = [row[:4] for row in A[:maxI] if all(lo[j] <= row[j] <= up[j] for j in range(4))] + sample_points(rng, p, 10)
    refute = [[y, evalf(p, y)] for y in cands]
    refute = [rv for rv in refute if rv[1] < optv - tvlow]

    def build(l, h, depth):
        lb = low(l, h)
        near = all(opt[j] - delta <= l[j] and h[j] <= opt[j] + delta for j in range(4))
        if lb > fobs + 1e-9 or (near and lb >= optv - tvlow + 1e-9) or depth >= maxdepth:
            nleaves[0] += 1
            return []
        kids = []
        for k in range(16):
            cl, ch = [], []
            for j in range(4):
                mid = 0.5 * (l[j] + h[j])
                if (k >> j) & 1:
                    cl.append(mid), ch.append(h[j])
                else:
                    cl.append(l[j]), ch.append(mid)
            kids.append(build(cl, ch, depth + 1))
        return kids
    tree = build(lo, up, 0) if not refute else []
    r = {"kind": "shekel4", "refute": [[qv(y), q(v)] for (y, v) in refute[:3]], "fn": fn, "A": [qv(row) for row in A], "C": qv(C), "maxI": maxI, "tree": tree, "fobs": q(fobs),
         "tvlow": q(tvlow), "delta": q(delta), "pts": [[qv(y), q(evalf(p, y))] for y in sample_points(rng, p, 30)], "_leaves": nleaves[0]}
    r.update(meta(p))
    return r
