package iopt.verif;

import tlc2.overrides.ITLCOverrides;

/** Registered with -Dtlc2.overrides.TLCOverrides=tlc2.overrides.TLCOverrides:iopt.verif.Overrides */
public class Overrides implements ITLCOverrides {
    @SuppressWarnings("rawtypes")
    @Override
    public Class[] get() { return new Class[] { QKernel.class }; }
}
