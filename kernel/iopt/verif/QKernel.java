package iopt.verif;

import java.math.BigInteger;
import java.util.concurrent.ConcurrentHashMap;

import tlc2.overrides.TLAPlusOperator;
import tlc2.value.impl.BoolValue;
import tlc2.value.impl.IntValue;
import tlc2.value.impl.StringValue;
import tlc2.value.impl.TupleValue;
import tlc2.value.impl.Value;
import util.UniqueString;

/**
 * Exact rational arithmetic for TLC (module Q.tla).
 *
 * A rational is a TLA+ string in canonical form: radix 16, "n" for integers and
 * "n/d" otherwise, gcd(n,d)=1, d>1, sign in front ("-3/8").  Canonical form makes
 * TLA+ equality coincide with rational equality and lets TLC fingerprint values
 * natively.  Nothing here knows anything about iOpt: it is generic arithmetic,
 * cross-checked by spec/QSelfTest.tla against definitions over TLC integers.
 */
public final class QKernel {
    private QKernel() {}

    private static final ConcurrentHashMap<String, BigInteger[]> CACHE = new ConcurrentHashMap<>();
    private static final int CACHE_MAX = 2_000_000;

    private static BigInteger[] parse(final Value v) {
        final StringValue sv = (StringValue) v;
        final UniqueString us = sv.getVal();
        final String key = us.toString();
        BigInteger[] r = CACHE.get(key);
        if (r != null) return r;
        final String s = key;
        final int slash = s.indexOf('/');
        if (slash < 0) {
            r = new BigInteger[] { new BigInteger(s, 16), BigInteger.ONE };
        } else {
            r = new BigInteger[] { new BigInteger(s.substring(0, slash), 16), new BigInteger(s.substring(slash + 1), 16) };
            if (r[1].signum() <= 0) throw new IllegalArgumentException("Q: bad denominator in " + s);
        }
        if (CACHE.size() > CACHE_MAX) CACHE.clear();
        CACHE.put(key, r);
        return r;
    }

    private static Value make(BigInteger n, BigInteger d) {
        if (d.signum() == 0) throw new ArithmeticException("Q: division by zero");
        if (d.signum() < 0) { n = n.negate(); d = d.negate(); }
        if (n.signum() == 0) return new StringValue("0");
        // fast path: power-of-two denominator (every double is dyadic)
        final int tzd = d.getLowestSetBit();
        if (d.bitLength() == tzd + 1) {
            final int tzn = n.getLowestSetBit();
            final int sh = Math.min(tzd, tzn);
            if (sh > 0) { n = n.shiftRight(sh); d = d.shiftRight(sh); }
        } else {
            final BigInteger g = n.gcd(d);
            if (!g.equals(BigInteger.ONE)) { n = n.divide(g); d = d.divide(g); }
        }
        final String s = d.equals(BigInteger.ONE) ? n.toString(16) : n.toString(16) + "/" + d.toString(16);
        final StringValue out = new StringValue(s);
        if (CACHE.size() > CACHE_MAX) CACHE.clear();
        CACHE.put(s, new BigInteger[] { n, d });
        return out;
    }

    private static int toInt(final Value v) { return ((IntValue) v).val; }

    private static int cmp(final BigInteger[] a, final BigInteger[] b) {
        if (a[1].equals(b[1])) return a[0].compareTo(b[0]);
        return a[0].multiply(b[1]).compareTo(b[0].multiply(a[1]));
    }

    @TLAPlusOperator(identifier = "QInt", module = "Q", warn = false)
    public static Value qInt(final Value i) { return make(BigInteger.valueOf(toInt(i)), BigInteger.ONE); }

    @TLAPlusOperator(identifier = "QFrac", module = "Q", warn = false)
    public static Value qFrac(final Value n, final Value d) {
        return make(BigInteger.valueOf(toInt(n)), BigInteger.valueOf(toInt(d)));
    }

    /** Exact value of a C99 / Python float.hex() literal such as "-0x1.8p+1". */
    @TLAPlusOperator(identifier = "QDbl", module = "Q", warn = false)
    public static Value qDbl(final Value s) {
        String t = ((StringValue) s).getVal().toString().trim().toLowerCase();
        boolean neg = false;
        if (t.startsWith("-")) { neg = true; t = t.substring(1); } else if (t.startsWith("+")) t = t.substring(1);
        if (!t.startsWith("0x")) throw new IllegalArgumentException("QDbl: not a hex float: " + t);
        t = t.substring(2);
        int p = t.indexOf('p');
        int exp = 0;
        String mant = t;
        if (p >= 0) { exp = Integer.parseInt(t.substring(p + 1).replace("+", "")); mant = t.substring(0, p); }
        int dot = mant.indexOf('.');
        int fracDigits = 0;
        if (dot >= 0) { fracDigits = mant.length() - dot - 1; mant = mant.substring(0, dot) + mant.substring(dot + 1); }
        BigInteger m = new BigInteger(mant.isEmpty() ? "0" : mant, 16);
        if (neg) m = m.negate();
        final int e = exp - 4 * fracDigits;
        if (e >= 0) return make(m.shiftLeft(e), BigInteger.ONE);
        return make(m, BigInteger.ONE.shiftLeft(-e));
    }

    @TLAPlusOperator(identifier = "QAdd", module = "Q", warn = false)
    public static Value qAdd(final Value x, final Value y) {
        final BigInteger[] a = parse(x), b = parse(y);
        if (a[1].equals(b[1])) return make(a[0].add(b[0]), a[1]);
        return make(a[0].multiply(b[1]).add(b[0].multiply(a[1])), a[1].multiply(b[1]));
    }

    @TLAPlusOperator(identifier = "QSub", module = "Q", warn = false)
    public static Value qSub(final Value x, final Value y) {
        final BigInteger[] a = parse(x), b = parse(y);
        if (a[1].equals(b[1])) return make(a[0].subtract(b[0]), a[1]);
        return make(a[0].multiply(b[1]).subtract(b[0].multiply(a[1])), a[1].multiply(b[1]));
    }

    @TLAPlusOperator(identifier = "QMul", module = "Q", warn = false)
    public static Value qMul(final Value x, final Value y) {
        final BigInteger[] a = parse(x), b = parse(y);
        return make(a[0].multiply(b[0]), a[1].multiply(b[1]));
    }

    @TLAPlusOperator(identifier = "QDiv", module = "Q", warn = false)
    public static Value qDiv(final Value x, final Value y) {
        final BigInteger[] a = parse(x), b = parse(y);
        return make(a[0].multiply(b[1]), a[1].multiply(b[0]));
    }

    /** x / y rounded towards zero to a multiple of 2^-k where k is chosen so that the
     *  relative error is at most 2^-128 (absolute 2^-k for tiny quotients).  Dyadic result. */
    @TLAPlusOperator(identifier = "QDivR", module = "Q", warn = false)
    public static Value qDivR(final Value x, final Value y) {
        final BigInteger[] a = parse(x), b = parse(y);
        BigInteger num = a[0].multiply(b[1]);
        BigInteger den = a[1].multiply(b[0]);
        if (den.signum() == 0) throw new ArithmeticException("QDivR: division by zero");
        if (den.signum() < 0) { num = num.negate(); den = den.negate(); }
        if (num.signum() == 0) return new StringValue("0");
        // exact when the denominator is a power of two
        if (den.bitLength() == den.getLowestSetBit() + 1) return make(num, den);
        final int k = Math.max(0, 160 - (num.bitLength() - den.bitLength()));
        final BigInteger q = num.shiftLeft(k).divide(den);
        return make(q, BigInteger.ONE.shiftLeft(k));
    }

    @TLAPlusOperator(identifier = "QNeg", module = "Q", warn = false)
    public static Value qNeg(final Value x) { final BigInteger[] a = parse(x); return make(a[0].negate(), a[1]); }

    @TLAPlusOperator(identifier = "QAbs", module = "Q", warn = false)
    public static Value qAbs(final Value x) { final BigInteger[] a = parse(x); return make(a[0].abs(), a[1]); }

    @TLAPlusOperator(identifier = "QLt", module = "Q", warn = false)
    public static Value qLt(final Value x, final Value y) { return cmp(parse(x), parse(y)) < 0 ? BoolValue.ValTrue : BoolValue.ValFalse; }

    @TLAPlusOperator(identifier = "QLeq", module = "Q", warn = false)
    public static Value qLeq(final Value x, final Value y) { return cmp(parse(x), parse(y)) <= 0 ? BoolValue.ValTrue : BoolValue.ValFalse; }

    @TLAPlusOperator(identifier = "QCmp", module = "Q", warn = false)
    public static Value qCmp(final Value x, final Value y) { return IntValue.gen(Integer.signum(cmp(parse(x), parse(y)))); }

    @TLAPlusOperator(identifier = "QSign", module = "Q", warn = false)
    public static Value qSign(final Value x) { return IntValue.gen(parse(x)[0].signum()); }

    @TLAPlusOperator(identifier = "QMin", module = "Q", warn = false)
    public static Value qMin(final Value x, final Value y) { return cmp(parse(x), parse(y)) <= 0 ? x : y; }

    @TLAPlusOperator(identifier = "QMax", module = "Q", warn = false)
    public static Value qMax(final Value x, final Value y) { return cmp(parse(x), parse(y)) >= 0 ? x : y; }

    @TLAPlusOperator(identifier = "QPowN", module = "Q", warn = false)
    public static Value qPowN(final Value x, final Value n) {
        final BigInteger[] a = parse(x);
        final int k = toInt(n);
        if (k >= 0) return make(a[0].pow(k), a[1].pow(k));
        return make(a[1].pow(-k), a[0].pow(-k));
    }

    @TLAPlusOperator(identifier = "QPow2", module = "Q", warn = false)
    public static Value qPow2(final Value k) {
        final int e = toInt(k);
        if (e >= 0) return make(BigInteger.ONE.shiftLeft(e), BigInteger.ONE);
        return make(BigInteger.ONE, BigInteger.ONE.shiftLeft(-e));
    }

    private static BigInteger floor(final BigInteger[] a) {
        final BigInteger[] qr = a[0].divideAndRemainder(a[1]);
        return (qr[1].signum() < 0) ? qr[0].subtract(BigInteger.ONE) : qr[0];
    }

    @TLAPlusOperator(identifier = "QFloor", module = "Q", warn = false)
    public static Value qFloor(final Value x) { return make(floor(parse(x)), BigInteger.ONE); }

    /** floor(x) as a TLC integer; the value must fit 32 bits. */
    @TLAPlusOperator(identifier = "QFloorInt", module = "Q", warn = false)
    public static Value qFloorInt(final Value x) {
        final BigInteger f = floor(parse(x));
        if (f.bitLength() > 31) throw new ArithmeticException("QFloorInt: does not fit 32 bits: " + f);
        return IntValue.gen(f.intValue());
    }

    @TLAPlusOperator(identifier = "QIsInt", module = "Q", warn = false)
    public static Value qIsInt(final Value x) { return parse(x)[1].equals(BigInteger.ONE) ? BoolValue.ValTrue : BoolValue.ValFalse; }

    /** floor(t^(1/n)) for t >= 0. */
    private static BigInteger iroot(final BigInteger t, final int n) {
        if (t.signum() == 0) return BigInteger.ZERO;
        if (n == 1) return t;
        // Newton from above
        BigInteger r = BigInteger.ONE.shiftLeft(t.bitLength() / n + 1);
        final BigInteger bn = BigInteger.valueOf(n), bn1 = BigInteger.valueOf(n - 1);
        while (true) {
            final BigInteger nr = bn1.multiply(r).add(t.divide(r.pow(n - 1))).divide(bn);
            if (nr.compareTo(r) >= 0) break;
            r = nr;
        }
        while (r.pow(n).compareTo(t) > 0) r = r.subtract(BigInteger.ONE);
        while (r.add(BigInteger.ONE).pow(n).compareTo(t) <= 0) r = r.add(BigInteger.ONE);
        return r;
    }

    /** <<lo, hi>> dyadic with lo <= x^(1/n) <= hi and hi-lo <= 2^-72 * max(x^(1/n), 2^-200). */
    private static BigInteger[] rootEnc(final BigInteger[] a, final int n) {
        if (a[0].signum() < 0) throw new ArithmeticException("QRoot: negative radicand");
        if (n < 1) throw new ArithmeticException("QRoot: bad degree");
        // scale by 2^(n*k) so that the scaled value has about n*80 bits
        final int bits = a[0].bitLength() - a[1].bitLength();
        int k = (n * 80 - bits) / n + 1;
        if (k < 0) k = 0;
        final BigInteger t = a[0].shiftLeft(n * k).divide(a[1]);
        final BigInteger r = iroot(t, n);
        final boolean exact = r.pow(n).equals(t) && a[0].shiftLeft(n * k).mod(a[1]).signum() == 0;
        return new BigInteger[] { r, exact ? r : r.add(BigInteger.ONE), BigInteger.ONE.shiftLeft(k) };
    }

    @TLAPlusOperator(identifier = "QRootLo", module = "Q", warn = false)
    public static Value qRootLo(final Value x, final Value n) {
        final BigInteger[] e = rootEnc(parse(x), toInt(n));
        return make(e[0], e[2]);
    }

    @TLAPlusOperator(identifier = "QRootHi", module = "Q", warn = false)
    public static Value qRootHi(final Value x, final Value n) {
        final BigInteger[] e = rootEnc(parse(x), toInt(n));
        return make(e[1], e[2]);
    }

    /** Sum of a TLA+ sequence (tuple) of rationals. */
    @TLAPlusOperator(identifier = "QSum", module = "Q", warn = false)
    public static Value qSum(final Value seq) {
        final TupleValue tv = (TupleValue) seq.toTuple();
        BigInteger n = BigInteger.ZERO, d = BigInteger.ONE;
        for (int i = 0; i < tv.size(); i++) {
            final BigInteger[] a = parse(tv.elems[i]);
            if (a[1].equals(d)) n = n.add(a[0]);
            else { n = n.multiply(a[1]).add(a[0].multiply(d)); d = d.multiply(a[1]); }
        }
        return make(n, d);
    }

    /** Bit length of numerator plus denominator: lets specs assert that operands stay small. */
    @TLAPlusOperator(identifier = "QBits", module = "Q", warn = false)
    public static Value qBits(final Value x) { final BigInteger[] a = parse(x); return IntValue.gen(a[0].bitLength() + a[1].bitLength()); }
}
