---------------------------- MODULE EvolventAuto ----------------------------
(***************************************************************************)
(* The evolvent's level loop is a finite automaton over orientation states *)
(* sig = <<it, iw>>.  Exploring it decides, for EVERY density m at once:   *)
(*                                                                         *)
(*  C07  Bij   in every reachable orientation the 2^N digits give the 2^N  *)
(*             distinct sub-cell offsets  => by induction on the level the *)
(*             map digit-string -> cell is a bijection onto the 2^(N*m)    *)
(*             cells;                                                      *)
(*  C08  Gray  consecutive digits give offsets differing in one coordinate *)
(*       Adj   (pair automaton) two consecutive subintervals stay          *)
(*             face-adjacent at every deeper level: after the digits d and *)
(*             d+1 the left branch follows digit 2^N-1 forever and the     *)
(*             right branch digit 0; diff, the difference of the two cell  *)
(*             centres in half-cell units, keeps exactly one non-zero      *)
(*             coordinate, equal to +2 or -2 (one cell width);             *)
(*  C09  Inv   the inverse level step reads back the digit and moves to    *)
(*             the same next orientation (lock-step).                      *)
(*                                                                         *)
(* mode = "reach": a = b is a reachable orientation, diff = 0.             *)
(* mode = "pair" : a, b are the orientations of two consecutive            *)
(*                 subintervals at the same level.                         *)
(***************************************************************************)
EXTENDS EvolventStep, TLC

VARIABLES mode, a, b, diff
vars == <<mode, a, b, diff>>

Zero == [i \in 1..N |-> 0]

Init == mode = "reach" /\ a = Sigma0 /\ b = Sigma0 /\ diff = Zero

ReachStep ==
  /\ mode = "reach"
  /\ \E d \in Digits : a' = Step(a, d).sig
  /\ b' = a' /\ diff' = Zero /\ mode' = "reach"

Fork ==
  /\ mode = "reach"
  /\ \E d \in 0 .. (NExp - 2) :
        LET sa == Step(a, d)  sb == Step(a, d + 1) IN
          /\ a' = sa.sig /\ b' = sb.sig
          /\ diff' = [i \in 1..N |-> sb.off[i] - sa.off[i]]
  /\ mode' = "pair"

PairStep ==
  /\ mode = "pair"
  /\ LET sa == Step(a, NExp - 1)  sb == Step(b, 0) IN
       /\ a' = sa.sig /\ b' = sb.sig
       /\ diff' = [i \in 1..N |-> 2 * diff[i] + sb.off[i] - sa.off[i]]
  /\ UNCHANGED mode

Next == ReachStep \/ Fork \/ PairStep
Spec == Init /\ [][Next]_vars

---------------------------------------------------------------------------
TypeOK == /\ mode \in {"reach", "pair"}
          /\ a \in (0 .. N - 1) \X Vecs /\ b \in (0 .. N - 1) \X Vecs
          /\ diff \in [1..N -> -2 .. 2]

(* C07 *)
Bij == mode = "reach" => {Step(a, d).off : d \in Digits} = Vecs

(* C08, one level *)
Gray == mode = "reach" =>
          \A d \in 0 .. (NExp - 2) :
             Cardinality({i \in 1..N : Step(a, d).off[i] # Step(a, d + 1).off[i]}) = 1

(* C08, all deeper levels *)
Adj == mode = "pair" =>
          /\ Cardinality({i \in 1..N : diff[i] # 0}) = 1
          /\ \A i \in 1..N : diff[i] \in {-2, 0, 2}

(* C09 *)
Inv == mode = "reach" =>
          \A d \in Digits : LET st == Step(a, d) IN InvStep(a, st.off) = [d |-> d, sig |-> st.sig]

(* the constant Reach used by the trace modules is exactly what this      *)
(* exploration visits                                                      *)
ReachAgrees == mode = "reach" => a \in Reach

(* printed once for the evidence files and for the conformance driver *)
ASSUME PrintT(<<"EvolventAuto", "N", N, "reach", Cardinality(Reach)>>)
=============================================================================
