----------------------------- MODULE BoxCert2D -----------------------------
(***************************************************************************)
(* C10 for the Grishagin functions  f = - sqrt(d1^2 + d2^2),               *)
(*   d1 = sum_ij A_ij sin(i pi x) sin(j pi y) + B_ij cos(i pi x) cos(j pi y)*)
(*   d2 = sum_ij C_ij sin(i pi x) sin(j pi y) - D_ij cos(i pi x) cos(j pi y)*)
(* (i, j = 1..7) on the unit square.  Minimising f is maximising the       *)
(* trigonometric polynomial S = d1^2 + d2^2 = f^2, all of whose            *)
(* derivatives are bounded through the coefficient tables:                 *)
(*   |d_k| <= D0_k = sum w,   |grad d_k| <= G_k = pi sum w sqrt(i^2+j^2),  *)
(*   ||Hess d_k|| <= H_k = pi^2 sum w (i^2+j^2),                           *)
(*   third derivatives <= T_k = pi^3 sum w (i^2+j^2)^(3/2)                 *)
(*   ||Hess S|| <= LS2 = 2 sum_k (G_k^2 + D0_k H_k),                       *)
(*   third derivatives of S <= LS3 = 2 sum_k (3 G_k H_k + D0_k T_k).       *)
(* The certificate is a QUADTREE (tiling by construction); a leaf carries  *)
(* f observed from the real Calculate at its centre m and at m -+ h e_x,   *)
(* m -+ h e_y.  On the leaf (half-diagonal R)                              *)
(*   S <= S(m) + (|grad S(m)| + err) R + LS2 R^2 / 2,                      *)
(* and the leaf must either have this bound strictly below the largest     *)
(* value of S observed anywhere (at the declared point or at a better      *)
(* point found by the search) - it then holds no global minimiser of f -   *)
(* or lie within delta of the declared point and have the bound below      *)
(* S(declared) (1 + tol)^2.                                                *)
(***************************************************************************)
EXTENDS Q, Sequences, Integers, FiniteSets, Json, IOUtils, TLC

Recs == ndJsonDeserialize(IOEnv.TRACE_FILE)
With(v, F(_)) == CHOOSE x \in {F(y) : y \in {v}} : TRUE

PiHi == QFrac(31415927, 10000000)
W1(r, i, j) == QAdd(QAbs(r.A[i][j]), QAbs(r.B[i][j]))
W2(r, i, j) == QAdd(QAbs(r.C[i][j]), QAbs(r.D[i][j]))
R2(i, j) == i * i + j * j
SumW(r, k, F(_, _)) == QSum([n \in 1..49 |-> LET i == ((n - 1) \div 7) + 1  j == ((n - 1) % 7) + 1
                                            IN QMul(IF k = 1 THEN W1(r, i, j) ELSE W2(r, i, j), F(i, j))])
D0(r, k) == SumW(r, k, LAMBDA i, j : Q1)
Gb(r, k) == QMul(PiHi, SumW(r, k, LAMBDA i, j : QRootHi(QInt(R2(i, j)), 2)))
Hb(r, k) == QMul(QSq(PiHi), SumW(r, k, LAMBDA i, j : QInt(R2(i, j))))
Tb(r, k) == QMul(QPowN(PiHi, 3), SumW(r, k, LAMBDA i, j : QMul(QInt(R2(i, j)), QRootHi(QInt(R2(i, j)), 2))))
LS2(r) == QMul(Q2, QAdd(QAdd(QSq(Gb(r, 1)), QMul(D0(r, 1), Hb(r, 1))), QAdd(QSq(Gb(r, 2)), QMul(D0(r, 2), Hb(r, 2)))))
LS3(r) == QMul(Q2, QAdd(QAdd(QMul("3", QMul(Gb(r, 1), Hb(r, 1))), QMul(D0(r, 1), Tb(r, 1))),
                        QAdd(QMul("3", QMul(Gb(r, 2), Hb(r, 2))), QMul(D0(r, 2), Tb(r, 2)))))

Sqrt2Hi == QRootHi(Q2, 2)

(* leaf = <<f(m), f(m + h e_x), f(m - h e_x), f(m + h e_y), f(m - h e_y)>>; node = <<t1, t2, t3, t4>> of sequences *)
IsLeaf(t) == Len(t) = 5
RECURSIVE Walk(_, _, _, _, _, _), Kids(_, _, _, _, _, _, _)
Walk(r, c, t, x0, y0, w) ==     \* c = [ls2, eg, sdecl, sallow]; the square [x0, x0 + w] x [y0, y0 + w]
  IF IsLeaf(t)
  THEN With(QMul(QMul(QHalf, w), Sqrt2Hi), LAMBDA rad :
       With(QDivR(QSub(QSq(t[2]), QSq(t[3])), QMul(Q2, r.h)), LAMBDA gx :
       With(QDivR(QSub(QSq(t[4]), QSq(t[5])), QMul(Q2, r.h)), LAMBDA gy :
       With(QAdd(QAdd(QAdd(QSq(t[1]), r.epss), QMul(QAdd(QRootHi(QAdd(QSq(gx), QSq(gy)), 2), QMul(c.eg, Sqrt2Hi)), rad)),
                 QMul(c.ls2, QMul(QHalf, QSq(rad)))), LAMBDA ub :
         LET near == /\ QLeq(QSub(r.opt[1], r.delta), x0) /\ QLeq(QAdd(x0, w), QAdd(r.opt[1], r.delta))
                     /\ QLeq(QSub(r.opt[2], r.delta), y0) /\ QLeq(QAdd(y0, w), QAdd(r.opt[2], r.delta))
             ok == QLt(ub, c.sdecl) \/ (near /\ QLeq(ub, c.sallow))
         IN <<1, IF ok THEN 0 ELSE 1, IF near THEN 1 ELSE 0>>))))
  ELSE Kids(r, c, t, x0, y0, QMul(QHalf, w), 1)
Kids(r, c, t, x0, y0, hw, k) ==
  IF k > 4 THEN <<0, 0, 0>>
  ELSE With(Walk(r, c, t[k], IF k \in {2, 4} THEN QAdd(x0, hw) ELSE x0, IF k \in {3, 4} THEN QAdd(y0, hw) ELSE y0, hw), LAMBDA a :
       With(Kids(r, c, t, x0, y0, hw, k + 1), LAMBDA b : <<a[1] + b[1], a[2] + b[2], a[3] + b[3]>>))

Verdict(r) ==
  \E ls2 \in {LS2(r)} : \E ls3 \in {LS3(r)} :
  \E c \in {[ls2 |-> ls2, eg |-> QAdd(QDivR(QMul(ls3, QSq(r.h)), "6"), QDivR(r.epss, r.h)),
             sdecl |-> QSub(QMax(QSq(r.fobs), QSq(r.fbest)), r.epss),   \* the largest f^2 observed anywhere: the global maximum of S is at least this
             sallow |-> QMul(QSq(r.optv), QSq(QAdd(Q1, r.tvrel)))]} :
  \E w \in {Walk(r, c, r.tree, Q0, Q0, Q1)} :
    PrintT(<<"BOX2D", [fn |-> r.fn, leaves |-> w[1], near |-> w[3], ls2 |-> QFloorInt(ls2),
        failed |-> (IF w[2] = 0 THEN {} ELSE {"LeafNotExcluded"})
                   \cup (IF QLeq(QAbs(QSub(r.fobs, r.optv)), QFrac(1, 10000)) THEN {} ELSE {"DeclaredValue"})
                   \cup (IF \A k \in 1..2 : QLeq(Q0, r.opt[k]) /\ QLeq(r.opt[k], Q1) THEN {} ELSE {"DeclaredPointOutsideBox"}),
        bad |-> w[2]]>>)

VARIABLE tpos
Init == tpos = 1
Next == tpos <= Len(Recs) /\ Verdict(Recs[tpos]) /\ tpos' = tpos + 1
Spec == Init /\ [][Next]_tpos
=============================================================================
