------------------------------- MODULE AGPLip -------------------------------
(***************************************************************************)
(* C01 at design level (N = 1, exact arithmetic): certified eps-optimality *)
(* under the reliability condition.                                        *)
(*                                                                         *)
(* One Solve call of the solver (AGPStep) against an ADVERSARIAL           *)
(* L-Lipschitz objective: at every trial the objective may return any      *)
(* value of Vals that keeps the observed values consistent with SOME       *)
(* L-Lipschitz function on [0, 1] (in one dimension: consistency with the  *)
(* two evaluated neighbours).  For every history explored, the pointwise   *)
(* smallest L-Lipschitz function through the observed values is the        *)
(* McShane envelope  E(x) = max_k (z_k - L |x - x_k|);  it is itself an    *)
(* admissible objective, and every admissible objective lies above it.     *)
(* So "the returned best value exceeds the true global minimum by less     *)
(* than (r M / 2) eps for EVERY L-Lipschitz objective with these values"   *)
(* is one inequality about min E - and TLC ranges over all histories.      *)
(***************************************************************************)
EXTENDS AGPStep

CONSTANTS Vals,    \* finite set of admissible objective values
          Lip      \* the Lipschitz constant L (Q string), box normalised to unit side

VARIABLE s
vars == <<s>>

Init == s = CallSolve(InitSolver)

(* values the objective may return at the pending point s.nx *)
Admissible ==
  IF s.first THEN Vals
  ELSE LET p == s.pts  t == s.t
       IN {z \in Vals :
             /\ (IsEval(p[t - 1]) => QLeq(QAbs(QSub(z, p[t - 1].z)), QMul(Lip, QSub(s.nx, p[t - 1].x))))
             /\ (IsEval(p[t])     => QLeq(QAbs(QSub(z, p[t].z)),     QMul(Lip, QSub(p[t].x, s.nx))))}

SolveLoop == s.pc = "solve" /\ ~Stop(s) /\ s' = SolveIterate(s)
SolveStop == s.pc = "solve" /\ Stop(s) /\ s' = SolveEnd(s)
Begin     == /\ s.pc = "dgi" /\ s.left > 0
             /\ IF s.first THEN s' = BeginFirst(s)
                ELSE \E s1 \in {Refilled(Recalced(s))} : \E e \in MaxEntries(s1.queue) : s' = BeginIter(s1, e)
ObjReturns == s.pc = "eval" /\ \E z \in Admissible : s' = Eval(s, z)
EndCall   == s.pc = "dgi" /\ s.left = 0 /\ s' = EndDGI(s)
Next == SolveLoop \/ SolveStop \/ Begin \/ ObjReturns \/ EndCall
Spec == Init /\ [][Next]_vars

---------------------------------------------------------------------------
(* minimum of the McShane envelope over [0, 1] *)
EnvMinOf(p) ==
  LET n == Len(p)
      cand == {IF i = 2 THEN QSub(p[2].z, QMul(Lip, QSub(p[2].x, p[1].x)))                           \* [0, x_1]
               ELSE IF i = n THEN QSub(p[n - 1].z, QMul(Lip, QSub(p[n].x, p[n - 1].x)))              \* [x_k, 1]
               ELSE QSub(QMul(QHalf, QAdd(p[i - 1].z, p[i].z)), QMul(QHalf, QMul(Lip, QSub(p[i].x, p[i - 1].x))))
               : i \in 2..n}
  IN CHOOSE m \in cand : \A c \in cand : QLeq(m, c)

AccuracyStop == s.pc = "solve" /\ InfLt(s.minD, Eps) /\ s.trials >= 2
Reliable == QLeq(QMul(Q2, Lip), QMul(Rr, s.M))                   \* r M >= K_1 L, K_1 = 2
Gap == QSub(s.Zb, EnvMinOf(s.pts))                               \* best value minus the smallest possible global minimum
Bound == QMul(QMul(QHalf, QMul(Rr, s.M)), Eps)

(* C01 (N = 1): literal reading - M is the final estimate *)
Certified == (AccuracyStop /\ Reliable) => QLt(Gap, Bound)

(* the observed values stay consistent with an L-Lipschitz function (sanity of the environment) *)
Consistent == \A i \in 3..(Len(s.pts) - 1) :
                QLeq(QAbs(QSub(s.pts[i].z, s.pts[i - 1].z)), QMul(Lip, QSub(s.pts[i].x, s.pts[i - 1].x)))
(* vacuity guards: the premise is reachable *)
NeverCertifiable == ~(AccuracyStop /\ Reliable)
=============================================================================
