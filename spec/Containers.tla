----------------------------- MODULE Containers -----------------------------
(***************************************************************************)
(* The search-data containers of iOpt/method/search_data.py as the code    *)
(* builds them:                                                            *)
(*   SearchDataItem       an object with coordinate x, characteristics     *)
(*                        globalR / localR (mutable attributes), and       *)
(*                        left / right links                               *)
(*   CharacteristicsQueue a DEPQ: a bag of (item, key) entries, pop-max,   *)
(*                        optional maxlen (the lowest entry is dropped)    *)
(*   SearchData           linked list + insertion log + one queue          *)
(*   SearchDataDualQueue  + a second queue and LAZY INVALIDATION: an entry *)
(*                        popped from a queue is discarded when its key    *)
(*                        no longer equals the item's current attribute    *)
(* A container state is a record; every operation is an operator that      *)
(* returns the SET of possible outcomes <<result, state'>> - a set because *)
(* the DEPQ's choice among entries with equal keys is unspecified.  The    *)
(* design module ContainersMC.tla explores all short operation histories;  *)
(* ContainersTrace.tla validates histories recorded from the real classes. *)
(*                                                                         *)
(* Entries are <<id, key, serial>>; keys are Q rationals or "-inf".        *)
(***************************************************************************)
EXTENDS Q, Sequences, Integers, FiniteSets

NoItem == 0

Empty(maxlen, dual) ==
  [x |-> <<>>, g |-> <<>>, l |-> <<>>,          \* item attributes, indexed by item id 1..n (creation order)
   left |-> <<>>, right |-> <<>>,               \* links (NoItem = None)
   first |-> NoItem,                            \* SearchData.__firstDataItem
   log |-> <<>>,                                \* SearchData._allTrials
   qG |-> {}, qL |-> {}, ser |-> 0,
   maxlen |-> maxlen,                           \* 0 = unbounded
   dual |-> dual]

KeyLeq(a, b) == IF a = "-inf" THEN TRUE ELSE IF b = "-inf" THEN FALSE ELSE QLeq(a, b)
(* entries of the same item with the same key are indistinguishable: only the oldest is offered as a choice *)
Canon(S) == {e \in S : \A f \in S : (f[1] = e[1] /\ f[2] = e[2]) => e[3] <= f[3]}
MaxE(qu) == Canon({e \in qu : \A f \in qu : KeyLeq(f[2], e[2])})
MinE(qu) == Canon({e \in qu : \A f \in qu : KeyLeq(e[2], f[2])})

(* SearchDataItem(...) - a new object; not yet in any container *)
NewItem(c, x, g, l) ==
  [c EXCEPT !.x = Append(@, x), !.g = Append(@, g), !.l = Append(@, l), !.left = Append(@, NoItem), !.right = Append(@, NoItem)]

(* the user (the method) assigns new characteristics to an item *)
SetR(c, i, g, l) == [c EXCEPT !.g[i] = g, !.l[i] = l]

(* DEPQ.insert: add the entry; if the bound is exceeded the entry with the lowest key is dropped *)
(* (any one of them if several are lowest).  Returns the set of possible queues.                *)
QInsert(qu, i, key, ser, maxlen) ==
  LET q1 == qu \cup {<<i, key, ser>>} IN
    IF maxlen > 0 /\ Cardinality(q1) > maxlen THEN {q1 \ {v} : v \in MinE(q1)} ELSE {q1}

(* traversal from the first item along the right links *)
RECURSIVE Walk(_, _, _)
Walk(c, i, fuel) == IF i = NoItem \/ fuel = 0 THEN <<>> ELSE <<i>> \o Walk(c, c.right[i], fuel - 1)
Items(c) == IF c.first = NoItem THEN <<>> ELSE Walk(c, c.first, Len(c.x) + 1)

(* InsertFirstDataItem(l, r) *)
InsertFirst(c, a, b) ==
  [c EXCEPT !.right[a] = b, !.left[b] = a, !.log = @ \o <<a, b>>, !.first = a]

(* FindDataItemByOneDimensionalPoint(x): first item (in list order) whose coordinate is greater than x *)
Find(c, x) ==
  LET its == Items(c)
      S == {k \in 1..Len(its) : QLt(x, c.x[its[k]])}
  IN IF S = {} THEN NoItem ELSE its[CHOOSE k \in S : \A k2 \in S : k <= k2]

(* InsertDataItem(new, right = hint or None): returns the set of possible states *)
Insert(c, i, hint) ==
  LET r == IF hint = NoItem THEN Find(c, c.x[i]) ELSE hint
      lft == c.left[r]
      c1 == [c EXCEPT !.left[i] = lft, !.left[r] = i, !.right[i] = r, !.right[lft] = i,
                      !.log = Append(@, i), !.ser = @ + 4]
      G1 == QInsert(c.qG, i, c.g[i], c.ser + 1, c.maxlen)
      L1 == IF c.dual THEN QInsert(c.qL, i, c.l[i], c.ser + 2, c.maxlen) ELSE {c.qL}
  IN IF hint = NoItem
     THEN {[c1 EXCEPT !.qG = g1, !.qL = l1] : g1 \in G1, l1 \in L1}
     ELSE UNION {UNION {{[c1 EXCEPT !.qG = g2, !.qL = l2] :
                          g2 \in QInsert(g1, r, c.g[r], c.ser + 3, c.maxlen),
                          l2 \in (IF c.dual THEN QInsert(l1, r, c.l[r], c.ser + 4, c.maxlen) ELSE {l1})}
                        : l1 \in L1} : g1 \in G1}

ClearQ(c) == [c EXCEPT !.qG = {}, !.qL = {}]

(* RefillQueue: clear, then insert every item of the list with its current characteristic(s) *)
(* With a bounded queue and many equal keys the number of tie resolutions can explode; beyond OverflowAt   *)
(* candidates the set collapses to the marker state Overflow (maxlen = -1), which trace validation treats  *)
(* as "history abandoned" - never as a failure.                                                          *)
OverflowAt == 300
Overflow == [Empty(0 - 1, FALSE) EXCEPT !.x = <<>>]
IsOverflow(S) == \E s \in S : s.maxlen = 0 - 1
RECURSIVE RefillFrom(_, _, _)
RefillFrom(c, S, its) ==   \* S: set of candidate states
  IF its = <<>> THEN S
  ELSE IF Cardinality(S) > OverflowAt THEN {Overflow}
  ELSE LET i == Head(its) IN
       RefillFrom(c, UNION {{[s EXCEPT !.qG = g1, !.qL = l1, !.ser = @ + 2] :
                                g1 \in QInsert(s.qG, i, s.g[i], s.ser + 1, s.maxlen),
                                l1 \in (IF s.dual THEN QInsert(s.qL, i, s.l[i], s.ser + 2, s.maxlen) ELSE {s.qL})}
                             : s \in S}, Tail(its))
Refill(c) == RefillFrom(c, {IF c.dual THEN ClearQ(c) ELSE [c EXCEPT !.qG = {}]}, Items(c))

(* SearchData.GetDataItemWithMaxGlobalR: refill if empty, pop an entry with maximal key *)
PopMaxG(c) ==
  UNION {IF s.maxlen = 0 - 1 THEN {<<NoItem, s>>} ELSE {<<e[1], [s EXCEPT !.qG = @ \ {e}]>> : e \in MaxE(s.qG)}
         : s \in (IF c.qG = {} THEN Refill(c) ELSE {c})}

(* SearchDataDualQueue: pop; while the popped key differs from the item's CURRENT characteristic: *)
(* (refill if empty) pop again.  which = "G" or "L".                                              *)
Qof(s, which) == IF which = "G" THEN s.qG ELSE s.qL
Attr(s, which, i) == IF which = "G" THEN s.g[i] ELSE s.l[i]
OverflowsOnPop(c, which) == Qof(c, which) = {} /\ IsOverflow(Refill(c))
WithQ(s, which, qu) == IF which = "G" THEN [s EXCEPT !.qG = qu] ELSE [s EXCEPT !.qL = qu]
RECURSIVE LazyPop(_, _, _)
LazyPop(s, which, fuel) ==
  IF fuel = 0 THEN {}
  ELSE IF s.maxlen = 0 - 1 THEN {<<NoItem, s>>}       \* a refill inside the loop overflowed: the marker is passed on (history abandoned)
  ELSE
  UNION {IF s1.maxlen = 0 - 1 THEN {<<NoItem, s1>>}
         ELSE UNION {IF e[2] = Attr(s1, which, e[1])
                     THEN {<<e[1], WithQ(s1, which, Qof(s1, which) \ {e})>>}
                     ELSE LazyPop(WithQ(s1, which, Qof(s1, which) \ {e}), which, fuel - 1)
                     : e \in MaxE(Qof(s1, which))}
         : s1 \in (IF Qof(s, which) = {} THEN Refill(s) ELSE {s})}
PopMaxDual(c, which) == LazyPop(c, which, 2 * (Cardinality(Qof(c, which)) + Len(c.x)) + 2)

GetMaxG(c) == IF c.dual THEN PopMaxDual(c, "G") ELSE PopMaxG(c)
GetMaxL(c) == PopMaxDual(c, "L")

Count(c) == Len(c.log)
Last(c) == IF c.log = <<>> THEN NoItem ELSE c.log[Len(c.log)]

(* CharacteristicsQueue on its own (Insert / GetBestItem / Clear / GetLen / IsEmpty) uses qG only *)
CQInsert(c, i, key) == {[c EXCEPT !.qG = g1, !.ser = @ + 1] : g1 \in QInsert(c.qG, i, key, c.ser + 1, c.maxlen)}
CQBest(c) == {<<e[1], e[2], [c EXCEPT !.qG = @ \ {e}]>> : e \in MaxE(c.qG)}

---------------------------------------------------------------------------
(* structural invariants of a container state (C19) *)
InList(c) == {Items(c)[k] : k \in 1..Len(Items(c))}
Sorted(c) == \A k \in 2..Len(Items(c)) : QLt(c.x[Items(c)[k - 1]], c.x[Items(c)[k]])
LinksOK(c) ==
  LET its == Items(c) IN
    /\ \A k \in 1..Len(its) : c.left[its[k]] = (IF k = 1 THEN NoItem ELSE its[k - 1])
    /\ \A k \in 1..Len(its) : c.right[its[k]] = (IF k = Len(its) THEN NoItem ELSE its[k + 1])
CountOK(c) == Len(Items(c)) = Len(c.log) /\ InList(c) = {c.log[k] : k \in 1..Len(c.log)}
BoundOK(c) == c.maxlen > 0 => Cardinality(c.qG) <= c.maxlen /\ Cardinality(c.qL) <= c.maxlen
QueueItemsOK(c) == \A e \in c.qG \cup c.qL : e[1] \in InList(c)
=============================================================================
