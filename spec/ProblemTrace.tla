---------------------------- MODULE ProblemTrace ----------------------------
(***************************************************************************)
(* Trace validation of the real benchmark problem classes against          *)
(* ProblemReg (C15) and the metadata schema (C18).                         *)
(* Events (one file = many histories sharing ONE memo, so that a value     *)
(* leaking from one history into another is seen as well):                 *)
(*   construct  inst, fam, member, meta = [dim, nfloat, nnames, nlo, nup,  *)
(*              nobj, lo, up, opt (point), optv (value), hasopt]           *)
(*   eval       inst, fid (objective / constraint id), p, p_after, value,  *)
(*              holder_value, same_holder                                  *)
(* Values are exact rationals (module Q strings): equality is bit-equality *)
(* of the doubles.                                                         *)
(***************************************************************************)
EXTENDS Q, Sequences, Integers, FiniteSets, Json, IOUtils, TLC

Trace == ndJsonDeserialize(IOEnv.TRACE_FILE)

VARIABLES tpos, memo, insts, tfailed, tnfail, tstats, tdone
vars == <<tpos, memo, insts, tfailed, tnfail, tstats, tdone>>
(* memo: function (as a TLA+ function) from <<fam, member, fid, p>> to value; insts: <<tid, inst>> -> <<fam, member>> *)

Init == /\ tpos = 1 /\ memo = <<>> /\ insts = <<>> /\ tfailed = {} /\ tnfail = 0 /\ tdone = FALSE
        /\ tstats = [constructs |-> 0, evals |-> 0, repeats |-> 0, keys |-> 0]

Note(e, f) ==
  /\ tfailed' = tfailed \cup {<<e.tid, e.id, cl>> : cl \in {c2 \in f : Cardinality({x \in tfailed : x[3] = c2}) < 8}}
  /\ tnfail' = tnfail + Cardinality(f)

InBox(p, lo, up) == Len(p) = Len(lo) /\ Len(p) = Len(up) /\ \A k \in 1..Len(p) : QLeq(lo[k], p[k]) /\ QLeq(p[k], up[k])

(* C18: metadata well-formed *)
MetaFails(m) ==
     (IF m.dim = m.nfloat /\ m.dim = m.nnames /\ m.dim = m.nlo /\ m.dim = m.nup /\ m.dim >= 1 THEN {} ELSE {"MetaDimension"})
\cup (IF Len(m.lo) = Len(m.up) /\ \A k \in 1..Len(m.lo) : QLt(m.lo[k], m.up[k]) THEN {} ELSE {"MetaBounds"})
\cup (IF m.nobj = 1 THEN {} ELSE {"MetaObjectives"})
\cup (IF m.hasopt /\ InBox(m.opt, m.lo, m.up) THEN {} ELSE {"MetaOptimumInBox"})

Lookup(key) == IF key \in DOMAIN memo THEN memo[key] ELSE "undefined"

Consume ==
  /\ tpos <= Len(Trace)
  /\ LET e == Trace[tpos] IN
       IF e.op = "construct"
       THEN /\ insts' = (<<e.tid, e.inst>> :> <<e.fam, e.member>>) @@ insts
            /\ Note(e, (IF "meta" \in DOMAIN e THEN MetaFails(e.meta) ELSE {}) \cup (IF e.raised = "none" THEN {} ELSE {"ConstructRaises"}))
            /\ tstats' = [tstats EXCEPT !.constructs = @ + 1] /\ UNCHANGED memo
       ELSE IF e.op = "reset"
       THEN /\ insts' = <<>> /\ Note(e, {}) /\ UNCHANGED <<memo, tstats>>
       ELSE \E key \in {<<insts[<<e.tid, e.inst>>][1], insts[<<e.tid, e.inst>>][2], e.fid, e.p>>} :
            \E old \in {Lookup(key)} :
              /\ Note(e, (IF old = "undefined" \/ old = e.value THEN {} ELSE {"Pure"})
                         \cup (IF e.raised = "none" THEN {} ELSE {"EvalRaises"})
                         \cup (IF e.p_after = e.p THEN {} ELSE {"PointModified"})
                         \cup (IF e.same_holder THEN {} ELSE {"HolderNotReturned"})
                         \cup (IF e.holder_value = e.value THEN {} ELSE {"HolderValue"}))
              /\ memo' = IF old = "undefined" THEN (key :> e.value) @@ memo ELSE memo
              /\ tstats' = [tstats EXCEPT !.evals = @ + 1, !.repeats = @ + (IF old = "undefined" THEN 0 ELSE 1),
                                          !.keys = @ + (IF old = "undefined" THEN 1 ELSE 0)]
              /\ UNCHANGED insts
  /\ tpos' = tpos + 1 /\ UNCHANGED tdone

Finish ==
  /\ tpos = Len(Trace) + 1 /\ ~tdone
  /\ PrintT(<<"VERDICT", [events |-> Len(Trace), nfail |-> tnfail, failed |-> tfailed, stats |-> tstats]>>)
  /\ tdone' = TRUE /\ UNCHANGED <<tpos, memo, insts, tfailed, tnfail, tstats>>

Next == Consume \/ Finish
Spec == Init /\ [][Next]_vars
=============================================================================
