------------------------------ MODULE GKLSSpec ------------------------------
(***************************************************************************)
(* Structure and evaluation rule of a GKLS test function of type D         *)
(* (Gaviano, Kvasov, Lera, Sergeyev) as iOpt ships it (C14).               *)
(*                                                                         *)
(* A function is given by its parameter record, read from the public       *)
(* attributes of the generated object:                                     *)
(*   M[1..10]   minimisers; M[1] = T, the vertex of the paraboloid;        *)
(*              M[2] the global minimiser (index 1 in the code)            *)
(*   rho, f, peak   attraction radii, minimum values, "peak" parameters    *)
(*   dist, radius   the class parameters; box = [-1, 1]^n                  *)
(* and by observed evaluations pts = <<y, value>> of the real Calculate.   *)
(* The specification                                                       *)
(*   - states the structural promises as exact rational predicates         *)
(*     (squares of norms are rational; roots are enclosed);                *)
(*   - classifies every test point ITSELF (outside all balls / at a        *)
(*     minimiser / inside ball i) and recomputes the value by the same     *)
(*     three-way case analysis as CalculateDFunction;                      *)
(*   - requires continuity across every ball boundary on straddling pairs; *)
(*   - compares with recorded reference values (golden), bit for bit.      *)
(* Clause names are returned per function; the harness reports them.       *)
(***************************************************************************)
EXTENDS Q, Sequences, Integers, FiniteSets, Json, IOUtils, TLC

Recs == ndJsonDeserialize(IOEnv.TRACE_FILE)

Prec == QFrac(1, 1000000000)                      \* comparison slack for quantities the code computes with sqrt (1e-9)
Tiny == QDivR(Q1, QPowN("a", 12))                 \* 1e-12

Dist2(a, b) == QSum([k \in 1..Len(a) |-> QSq(QSub(a[k], b[k]))])
NormLo(a, b) == QRootLo(Dist2(a, b), 2)
NormHi(a, b) == QRootHi(Dist2(a, b), 2)
Dot(y, a, b) == QSum([k \in 1..Len(y) |-> QMul(QSub(y[k], a[k]), QSub(b[k], a[k]))])      \* (y - a) . (b - a)

InBox(p) == \A k \in 1..Len(p) : QLeq(QNeg(Q1), p[k]) /\ QLeq(p[k], Q1)
NMin(r) == Len(r.M)

(* ---- structure ---- *)
StructFails(r) ==
  LET n == NMin(r) IN
     (IF n = 10 /\ \A i \in 1..n : Len(r.M[i]) = r.dim /\ InBox(r.M[i]) THEN {} ELSE {"MinimisersInBox"})
\cup (IF \A i \in 1..n : \A j \in (i + 1)..n : QLeq(QSq(QAdd(r.rho[i], r.rho[j])), QMul(Dist2(r.M[i], r.M[j]), QAdd(Q1, Tiny)))
      THEN {} ELSE {"BallsOverlap"})
\cup (IF \A i \in 1..n : QLt(Q0, r.rho[i]) THEN {} ELSE {"RadiusNotPositive"})
\cup (IF QClose(Dist2(r.M[2], r.M[1]), QSq(r.dist), Prec) THEN {} ELSE {"GlobalDistance"})
\cup (IF r.rho[2] = r.radius THEN {} ELSE {"GlobalRadius"})
\cup (IF r.f[2] = QNeg(Q1) /\ r.f[1] = Q0 THEN {} ELSE {"GlobalValue"})
\cup (IF \A i \in 3..n : QLt(QNeg(Q1), r.f[i]) THEN {} ELSE {"OtherMinimaNotHigher"})
\cup (IF r.optv = QNeg(Q1) /\ r.opt = r.M[2] THEN {} ELSE {"DeclaredOptimum"})
     (* f_i = (rho_i - ||T - M_i||)^2 - peak_i, peak_i > 0: a strict local minimum below the paraboloid *)
\cup (IF \A i \in 3..n :
          /\ QLt(Q0, r.peak[i])
          /\ \E lo \in {QSub(QSq(QSub(NormLo(r.M[1], r.M[i]), r.rho[i])), r.peak[i])} :
               QClose(r.f[i], lo, Prec)
      THEN {} ELSE {"ValueFormula"})

(* ---- C10: -1 at M[2] is the global minimum over the whole box, decided from the parameters ----                      *)
(* outside all balls f = ||x - T||^2 >= 0 > -1.  Inside ball i, with n = ||x - M_i|| in [0, rho], c the cosine of the      *)
(* angle between x - M_i and T - M_i, d = ||T - M_i||, a = d^2 + f_1 - f_i:   f - f_i = n^2 (A n + B),                     *)
(*   A = 2 d c / rho^2 - 2 a / rho^3,   B = 1 - 4 d c / rho + 3 a / rho^2,   A rho + B = 1 - 2 d c / rho + a / rho^2.     *)
(* A n + B is affine in n and in c, so it is >= 0 on [0, rho] x [-1, 1] iff it is at the four corners.  Then f >= f_i on   *)
(* ball i, f_i >= -1 with equality only for the global minimiser: the declared optimum is the global minimum.             *)
BasinFails(r) ==
  {"BasinBelowItsMinimum" : i \in {j \in 2..NMin(r) :
      LET rho == r.rho[j]
          dlo == NormLo(r.M[1], r.M[j])  dhi == NormHi(r.M[1], r.M[j])
          a == QSub(QAdd(Dist2(r.M[1], r.M[j]), r.f[1]), r.f[j])
          B(dc)  == QAdd(QSub(Q1, QDivR(QMul("4", dc), rho)), QDivR(QMul("3", a), QSq(rho)))
          E(dc)  == QAdd(QSub(Q1, QDivR(QMul(Q2, dc), rho)), QDivR(a, QSq(rho)))
          slack == QNeg(Prec)
      IN ~(/\ QLeq(slack, B(dhi)) /\ QLeq(slack, B(QNeg(dlo))) /\ QLeq(slack, E(dhi)) /\ QLeq(slack, E(QNeg(dlo))))}}

(* ---- the D-type function as a case analysis; returns <<kind, lo, hi>> enclosing the value ---- *)
BallOf(r, y) ==   \* first ball (code order: index 1..9, here 2..10) whose closed ball contains y; 0 if none
  LET S == {i \in 2..NMin(r) : QLeq(Dist2(r.M[i], y), QSq(r.rho[i]))}
  IN IF S = {} THEN 0 ELSE CHOOSE i \in S : \A j \in S : i <= j
(* margin of the classification: how far (relative) y is from the boundary of the ball that decides *)
NearBoundary(r, y) == \E i \in 2..NMin(r) : QClose(Dist2(r.M[i], y), QSq(r.rho[i]), QMul(QSq(r.rho[i]), QFrac(1, 100000000)))

Cubic(r, i, y, nrm) ==
  \* (2/rho^2 * scal/norm - 2a/rho^3) norm^3 + (1 - 4 scal/(norm rho) + 3a/rho^2) norm^2 + f_i
  LET rho == r.rho[i]
      a == QSub(QAdd(Dist2(r.M[1], r.M[i]), r.f[1]), r.f[i])
      scal == Dot(y, r.M[i], r.M[1])
      n2 == QSq(nrm)
      t3 == QMul(QSub(QDivR(QMul(Q2, scal), QMul(QSq(rho), nrm)), QDivR(QMul(Q2, a), QPowN(rho, 3))), QMul(n2, nrm))
      t2 == QMul(QAdd(QSub(Q1, QDivR(QMul("4", scal), QMul(nrm, rho))), QDivR(QMul("3", a), QSq(rho))), n2)
  IN QAdd(QAdd(t3, t2), r.f[i])

Expected(r, y) ==
  LET b == BallOf(r, y) IN
    IF b = 0 THEN <<"paraboloid", QAdd(Dist2(r.M[1], y), r.f[1])>>
    ELSE IF QLt(Dist2(r.M[b], y), QSq(QFrac(1, 1000000000))) THEN <<"minimiser", r.f[b]>>      \* norm < 1e-9 (code: 1e-10)
    ELSE <<"cubic", Cubic(r, b, y, NormLo(r.M[b], y))>>

EvalFails(r) ==
  UNION {LET p == r.pts[k]  e == Expected(r, p[1]) IN
           IF NearBoundary(r, p[1]) THEN {}           \* classification within rounding of a boundary: covered by the continuity pairs
           ELSE IF e[1] = "minimiser" THEN (IF p[2] = e[2] THEN {} ELSE {"ValueAtMinimiser"})
           ELSE IF QClose(p[2], e[2], QAdd(QMul(QAbs(e[2]), QFrac(1, 1000000000)), QFrac(1, 1000000000))) THEN {}
           ELSE {IF e[1] = "paraboloid" THEN "ParaboloidOutside" ELSE "CubicInside"}
         : k \in 1..Len(r.pts)}

(* continuity: pairs <<y_in, v_in, y_out, v_out>> at most 1e-7 rho apart, one inside and one outside ball i.  At the   *)
(* boundary the cubic joins the paraboloid with matching gradient 2 (y - T), of norm <= 2 sqrt(20) < 9 on the box, so  *)
(* values of a continuous function differ by less than 100 |y_in - y_out| there; a jump is a discontinuity.           *)
GradBound == QInt(100)
Straddles(r, p) == \E i \in 2..NMin(r) :
                     /\ QLeq(Dist2(r.M[i], p[1]), QSq(r.rho[i])) /\ QLt(QSq(r.rho[i]), Dist2(r.M[i], p[3]))
                     /\ QLeq(Dist2(p[1], p[3]), QSq(QMul(r.rho[i], QFrac(1, 10000000))))
ContFails(r) ==
  {"Discontinuous" : k \in {j \in 1..Len(r.pairs) :
       LET p == r.pairs[j] IN
         Straddles(r, p) /\ ~QLeq(QAbs(QSub(p[2], p[4])), QAdd(QMul(GradBound, NormHi(p[1], p[3])), Tiny))}}
  \cup {"PairNotAtBoundary" : k \in {j \in 1..Len(r.pairs) : ~Straddles(r, r.pairs[j])}}

GoldenFails(r) ==
  IF "golden" \notin DOMAIN r THEN {}
  ELSE (IF r.golden.M = r.M /\ r.golden.rho = r.rho /\ r.golden.f = r.f THEN {} ELSE {"ReferenceParameters"})
       \cup (IF r.golden.values = r.gvalues THEN {} ELSE {"ReferenceValues"})

(* ---- the random stream: an oracle independent of the Python port (KnuthRNG.tla), evaluated when r.rng is set ---- *)
RNG == INSTANCE KnuthRNG
With(v, F(_)) == CHOOSE x \in {F(y) : y \in {v}} : TRUE
StreamFails(r) ==
  IF ~("rng" \in DOMAIN r /\ r.rng) THEN {} ELSE
  With(RNG!GKLSStream(r.dim, r.nf, r.M[2], r.radius), LAMBDA st :
     \* the vertex and the local minimisers are  left + rnd (right - left)  at the stream positions the generator consumes
     (IF r.M[1] = st.vertex THEN {} ELSE {"StreamVertex"})
\cup (IF \A i \in 3..10 : r.M[i] = st.locals[i - 2] THEN {} ELSE {"StreamMinimisers"})
     \* peak_i = min((1 + u_i) rho_i, u_i ((rho_i - ||T - M_i||)^2 - f_global)) with u_i the next numbers of the last batch
\cup (IF \A i \in 3..10 :
          \E u \in {st.peakmult[i - 2]} : \E tm \in {QSq(QSub(NormLo(r.M[1], r.M[i]), r.rho[i]))} :
            QClose(r.peak[i], QMin(QMul(QAdd(Q1, u), r.rho[i]), QMul(u, QAdd(tm, Q1))), Prec)
      THEN {} ELSE {"StreamPeaks"}))

Kinds(r) == [paraboloid |-> Cardinality({k \in 1..Len(r.pts) : Expected(r, r.pts[k][1])[1] = "paraboloid"}),
             cubic |-> Cardinality({k \in 1..Len(r.pts) : Expected(r, r.pts[k][1])[1] = "cubic"}),
             minimiser |-> Cardinality({k \in 1..Len(r.pts) : Expected(r, r.pts[k][1])[1] = "minimiser"})]

(* the record has the shape of a dimension-dim function with 10 minimisers (otherwise nothing else is evaluated) *)
WellFormed(r) ==
  /\ Len(r.M) = 10 /\ Len(r.rho) = 10 /\ Len(r.f) = 10 /\ Len(r.peak) = 10 /\ Len(r.opt) = r.dim
  /\ \A i \in 1..10 : Len(r.M[i]) = r.dim
  /\ \A k \in 1..Len(r.pts) : Len(r.pts[k][1]) = r.dim
  /\ \A k \in 1..Len(r.pairs) : Len(r.pairs[k][1]) = r.dim /\ Len(r.pairs[k][3]) = r.dim

VARIABLE tpos
Init == tpos = 1
Next == /\ tpos <= Len(Recs)
        /\ \E r \in {Recs[tpos]} :
             IF WellFormed(r)
             THEN PrintT(<<"GKLS", [dim |-> r.dim, nf |-> r.nf,
                                    failed |-> StructFails(r) \cup EvalFails(r) \cup ContFails(r) \cup GoldenFails(r) \cup BasinFails(r)
                                               \cup StreamFails(r)
                                               \cup (IF r.raised THEN {"EvaluationRaises"} ELSE {}),
                                    points |-> Len(r.pts), pairs |-> Len(r.pairs), kinds |-> Kinds(r)]>>)
             ELSE PrintT(<<"GKLS", [dim |-> r.dim, nf |-> r.nf, failed |-> {"Malformed"} \cup (IF r.raised THEN {"EvaluationRaises"} ELSE {}),
                                    points |-> 0, pairs |-> 0, kinds |-> [paraboloid |-> 0, cubic |-> 0, minimiser |-> 0]]>>)
        /\ tpos' = tpos + 1
Spec == Init /\ [][Next]_tpos
=============================================================================
