--------------------------- MODULE ContainersTrace ---------------------------
(***************************************************************************)
(* Trace validation of the real SearchData / SearchDataDualQueue /         *)
(* CharacteristicsQueue against Containers.tla.                            *)
(*                                                                         *)
(* A file holds many operation histories (field tid, each starting with    *)
(* op = "init").  Because the DEPQ's choice among equal keys is            *)
(* unspecified, the specification state is the SET of container states     *)
(* that explain the history so far (cands); an event whose logged result   *)
(* no candidate can produce is a failure of the clause named after the     *)
(* operation, and the rest of that history is skipped (dead).  Every event *)
(* also carries a public observation of the container (traversal, links,   *)
(* count, last item) that must match every surviving candidate.            *)
(***************************************************************************)
EXTENDS Containers, Json, IOUtils, TLC

Trace == ndJsonDeserialize(IOEnv.TRACE_FILE)
MaxCands == 200

VARIABLES tpos, cands, dead, tfailed, tnfail, tstats, tdone
vars == <<tpos, cands, dead, tfailed, tnfail, tstats, tdone>>

Init == /\ tpos = 1 /\ cands = {} /\ dead = FALSE /\ tfailed = {} /\ tnfail = 0 /\ tdone = FALSE
        /\ tstats = [hist |-> 0, ops |-> 0, maxcands |-> 0, ambiguous |-> 0, abandoned |-> 0]

(* successor candidates for one event; {} means: not explainable *)
Step(e, S) ==
  CASE e.op = "new"         -> {NewItem(s, e.x, e.g, e.l) : s \in S}
    [] e.op = "setr"        -> {SetR(s, e.i, e.g, e.l) : s \in S}
    [] e.op = "insertfirst" -> {InsertFirst(s, e.a, e.b) : s \in S}
    [] e.op = "insert"      -> UNION {Insert(s, e.i, e.hint) : s \in S}
    [] e.op = "clear"       -> {ClearQ(s) : s \in S}
    [] e.op = "refill"      -> UNION {Refill(s) : s \in S}
    [] e.op = "maxg"        -> UNION {{o[2] : o \in {p \in GetMaxG(s) : p[1] = e.res \/ p[2].maxlen = 0 - 1}} : s \in S}
    [] e.op = "maxl"        -> UNION {{o[2] : o \in {p \in GetMaxL(s) : p[1] = e.res \/ p[2].maxlen = 0 - 1}} : s \in S}
    [] e.op = "find"        -> {s \in S : Find(s, e.x) = e.res}
    [] e.op = "cq_insert"   -> UNION {CQInsert(s, e.i, e.key) : s \in S}
    [] e.op = "cq_best"     -> UNION {{o[3] : o \in {p \in CQBest(s) : p[1] = e.res /\ p[2] = e.key}} : s \in S}
    [] e.op = "cq_clear"    -> {[s EXCEPT !.qG = {}] : s \in S}
    [] OTHER                -> S

ClauseOf(op) ==
  CASE op = "maxg" -> "MaxG" [] op = "maxl" -> "MaxL" [] op = "find" -> "Find"
    [] op = "cq_best" -> "CQBest" [] OTHER -> "Unexplained"

(* the public observation attached to an event must hold in every candidate *)
ObsFails(o, S) ==
  IF S = {} THEN {} ELSE
  LET s == CHOOSE t \in S : TRUE IN      \* list structure, log and bounds are the same in all candidates
     (IF "iter" \in DOMAIN o /\ o.iter # Items(s) THEN {"Order"} ELSE {})
\cup (IF "links" \in DOMAIN o /\ ~o.links THEN {"Links"} ELSE {})
\cup (IF "count" \in DOMAIN o /\ o.count # Count(s) THEN {"Count"} ELSE {})
\cup (IF "last" \in DOMAIN o /\ o.last # Last(s) THEN {"Last"} ELSE {})
\cup (IF "sorted" \in DOMAIN o /\ ~o.sorted THEN {"Order"} ELSE {})
\cup (IF "qlen" \in DOMAIN o /\ ~(\E t \in S : Cardinality(t.qG) = o.qlen) THEN {"CQLen"} ELSE {})
\cup (IF "qempty" \in DOMAIN o /\ ~(\E t \in S : (t.qG = {}) = o.qempty) THEN {"CQLen"} ELSE {})
\cup (IF "qmaxlen" \in DOMAIN o /\ o.qmaxlen # s.maxlen THEN {"CQLen"} ELSE {})

Note(e, f) ==
  /\ tfailed' = tfailed \cup {<<e.tid, e.id, cl>> : cl \in {c2 \in f : Cardinality({x \in tfailed : x[3] = c2}) < 8}}
  /\ tnfail' = tnfail + Cardinality(f)

Consume ==
  /\ tpos <= Len(Trace)
  /\ LET e == Trace[tpos] IN
       IF e.op = "init"
       THEN /\ cands' = {Empty(e.maxlen, e.dual)} /\ dead' = FALSE /\ Note(e, {})
            /\ tstats' = [tstats EXCEPT !.hist = @ + 1]
       ELSE IF dead THEN UNCHANGED <<cands, dead, tfailed, tnfail, tstats>>
       ELSE IF "raised" \in DOMAIN e
       THEN \* the histories are generated inside the operations' preconditions: an exception is never an allowed outcome
            /\ Note(e, {"OpRaises"}) /\ dead' = TRUE /\ UNCHANGED <<cands, tstats>>
       ELSE \E S \in {IF e.op \in {"maxg", "maxl"} /\ (\E s \in cands : OverflowsOnPop(s, IF e.op = "maxg" THEN "G" ELSE "L"))
                       THEN {Overflow} ELSE Step(e, cands)} :
              IF S = {}
              THEN /\ Note(e, {ClauseOf(e.op)}) /\ dead' = TRUE /\ UNCHANGED <<cands, tstats>>
              ELSE IF Cardinality(S) > MaxCands \/ IsOverflow(S)
              THEN \* too many tie resolutions to follow: the history is abandoned (counted, never reported as a failure)
                   /\ dead' = TRUE /\ Note(e, {}) /\ UNCHANGED cands
                   /\ tstats' = [tstats EXCEPT !.abandoned = @ + 1]
              ELSE /\ cands' = S /\ UNCHANGED dead
                   /\ Note(e, IF "obs" \in DOMAIN e THEN ObsFails(e.obs, S) ELSE {})
                   /\ tstats' = [tstats EXCEPT !.ops = @ + 1,
                                               !.maxcands = IF Cardinality(S) > @ THEN Cardinality(S) ELSE @,
                                               !.ambiguous = @ + (IF Cardinality(S) > 1 THEN 1 ELSE 0)]
  /\ tpos' = tpos + 1 /\ UNCHANGED tdone

Finish ==
  /\ tpos = Len(Trace) + 1 /\ ~tdone
  /\ PrintT(<<"VERDICT", [events |-> Len(Trace), nfail |-> tnfail, failed |-> tfailed, stats |-> tstats]>>)
  /\ tdone' = TRUE /\ UNCHANGED <<tpos, cands, dead, tfailed, tnfail, tstats>>

Next == Consume \/ Finish
Spec == Init /\ [][Next]_vars
=============================================================================
