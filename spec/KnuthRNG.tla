------------------------------ MODULE KnuthRNG ------------------------------
(***************************************************************************)
(* Knuth's lagged-Fibonacci generator for doubles (ranf_start / ranf_array *)
(* of rng-double.c, TAOCP 3.6, as used by the GKLS generator) in EXACT     *)
(* arithmetic: every number is a multiple of 2^-52 in [0, 1), so module Q  *)
(* represents the doubles of the C / Python code without any rounding.     *)
(* This is an oracle independent of iOpt's Python port (gkls_random.py):   *)
(* the minimisers of a GKLS function must be the numbers this stream       *)
(* delivers at the positions the generator consumes (GKLSStream below).    *)
(*                                                                         *)
(* Arrays are TLA+ sequences, 1-based: u[j + 1] is the C array's u[j].     *)
(***************************************************************************)
EXTENDS Q, Sequences, Integers, FiniteSets, Folds, TLC

KK == 100
LL == 37
TT == 70
Ulp == QPow2(0 - 52)
ModSum(x, y) == LET t == QAdd(x, y) IN IF QLeq(Q1, t) THEN QSub(t, Q1) ELSE t

(* TLC re-evaluates LET definitions at every use: With binds a value exactly once *)
With(v, F(_)) == CHOOSE r \in {F(y) : y \in {v}} : TRUE
RECURSIVE Iter(_, _, _, _)
Iter(F(_, _), lo, hi, acc) == IF lo > hi THEN acc ELSE Iter(F, lo + 1, hi, F(acc, lo))     \* acc := F(acc, k) for k = lo..hi
RECURSIVE IterDown(_, _, _, _)
IterDown(F(_, _), hi, lo, acc) == IF hi < lo THEN acc ELSE IterDown(F, hi - 1, lo, F(acc, hi))

(* ---- ranf_start ---------------------------------------------------------------------------------------------------- *)
(* state of the bootstrap: [u, ul] with u, ul sequences of length 2 KK - 1 (C indices 0 .. 2 KK - 2); ul holds 0 or Ulp    *)
Boot(seed30) ==
  \* u[j] = ss; ss += ss; if ss >= 1: ss -= 1 - 2 ulp   (j = 0 .. KK-1), then zeros; u[1] += ulp, ul[1] = ulp
  LET ss0 == QMul(QMul(Q2, Ulp), QInt(seed30 + 2))
      step(acc, j) == LET d == QAdd(acc.ss, acc.ss)
                      IN [u |-> Append(acc.u, acc.ss), ss |-> IF QLeq(Q1, d) THEN QSub(d, QSub(Q1, QMul(Q2, Ulp))) ELSE d]
      b == Iter(step, 0, KK - 1, [u |-> <<>>, ss |-> ss0])
      u0 == b.u \o [k \in 1..(KK - 1) |-> Q0]
  IN [u |-> [u0 EXCEPT ![2] = QAdd(@, Ulp)], ul |-> [k \in 1..(2 * KK - 1) |-> IF k = 2 THEN Ulp ELSE Q0]]

(* "square": for j = KK-1 .. 1: ul[j+j] = ul[j]; u[j+j] = u[j]   (reads precede the writes that could touch them) *)
Square(a) ==
  [u  |-> [k \in 1..(2 * KK - 1) |-> LET c == k - 1 IN IF c >= 2 /\ c % 2 = 0 THEN a.u[(c \div 2) + 1] ELSE a.u[k]],
   ul |-> [k \in 1..(2 * KK - 1) |-> LET c == k - 1 IN IF c >= 2 /\ c % 2 = 0 THEN a.ul[(c \div 2) + 1] ELSE a.ul[k]]]
(* for j = 2KK-2 .. KK-LL+1 step -2: ul[2KK-1-j] = 0; u[2KK-1-j] = u[j] - ul[j]   (writes odd C indices, reads even ones) *)
Odds(a) ==
  [u  |-> [k \in 1..(2 * KK - 1) |-> LET c == k - 1  j == 2 * KK - 1 - c
                                     IN IF c % 2 = 1 /\ j >= KK - LL + 1 /\ j <= 2 * KK - 2 THEN QSub(a.u[j + 1], a.ul[j + 1]) ELSE a.u[k]],
   ul |-> [k \in 1..(2 * KK - 1) |-> LET c == k - 1  j == 2 * KK - 1 - c
                                     IN IF c % 2 = 1 /\ j >= KK - LL + 1 /\ j <= 2 * KK - 2 THEN Q0 ELSE a.ul[k]]]
(* for j = 2KK-2 .. KK: if ul[j] != 0: toggle ul[j-(KK-LL)], u[j-(KK-LL)] (+)= u[j]; toggle ul[j-KK], u[j-KK] (+)= u[j]  - sequential *)
Reduce1(a, j) ==
  IF a.ul[j + 1] = Q0 THEN a
  ELSE LET p == j - (KK - LL) + 1  q2 == j - KK + 1 IN
       [u  |-> [a.u EXCEPT ![p] = ModSum(@, a.u[j + 1]), ![q2] = ModSum(@, a.u[j + 1])],
        ul |-> [a.ul EXCEPT ![p] = QSub(Ulp, @), ![q2] = QSub(Ulp, @)]]
Reduce(a) == IterDown(Reduce1, 2 * KK - 2, KK, a)
(* "multiply by z": shift entries 0..KK cyclically; if ul[KK] != 0: toggle ul[LL], u[LL] (+)= u[KK] *)
MulZ(a) ==
  LET sh == [u  |-> [k \in 1..(2 * KK - 1) |-> LET c == k - 1 IN IF c = 0 THEN a.u[KK] ELSE IF c <= KK THEN a.u[c] ELSE a.u[k]],
             ul |-> [k \in 1..(2 * KK - 1) |-> LET c == k - 1 IN IF c = 0 THEN a.ul[KK] ELSE IF c <= KK THEN a.ul[c] ELSE a.ul[k]]]
  IN IF sh.ul[KK + 1] = Q0 THEN sh
     ELSE [u |-> [sh.u EXCEPT ![LL + 1] = ModSum(@, sh.u[KK + 1])], ul |-> [sh.ul EXCEPT ![LL + 1] = QSub(Ulp, @)]]

RECURSIVE StartLoop(_, _, _)
StartLoop(a, s, t) ==
  IF t = 0 THEN a
  ELSE With(Reduce(Odds(Square(a))), LAMBDA b :
       With(IF s % 2 = 1 THEN MulZ(b) ELSE b, LAMBDA c :
         IF s # 0 THEN StartLoop(c, s \div 2, t) ELSE StartLoop(c, s, t - 1)))

(* the generator state ran_u (KK numbers) after ranf_start(seed) *)
RanfStart(seed) ==
  With(StartLoop(Boot(seed % 1073741824), seed % 1073741824, TT - 1), LAMBDA a :
    [i \in 1..KK |-> IF i - 1 < KK - LL THEN a.u[(i - 1) + LL + 1] ELSE a.u[(i - 1) - (KK - LL) + 1]])

(* ---- ranf_array(aa, n): returns [aa |-> the n numbers, st |-> the new state] ----------------------------------------- *)
RECURSIVE Extend(_, _)
Extend(aa, n) ==   \* aa[j] = aa[j-KK] (+) aa[j-LL], in blocks of at most LL new elements (they depend on older ones only)
  IF Len(aa) >= n THEN aa
  ELSE With(IF n - Len(aa) < LL THEN n - Len(aa) ELSE LL, LAMBDA m :
         Extend(aa \o [k \in 1..m |-> ModSum(aa[Len(aa) + k - KK], aa[Len(aa) + k - LL])], n))
RanfArray(st, n) ==
  With(Extend(st, n), LAMBDA aa :
  With([i \in 1..LL |-> ModSum(aa[n + i - KK], aa[n + i - LL])], LAMBDA head :               \* new ran_u[0 .. LL-1]
  With(Iter(LAMBDA acc, i : Append(acc, ModSum(aa[n + i - KK], acc[i - LL])), LL + 1, KK, head), LAMBDA st2 :
    [aa |-> aa, st |-> st2])))

(* ---- the positions of the stream the GKLS generator consumes ------------------------------------------------------- *)
NumRnd == 1009
Affine(rn) == QSub(QMul(Q2, rn), Q1)              \* left + rnd (right - left) on [-1, 1]: exact in doubles
Dist2(a, b) == QSum([k \in 1..Len(a) |-> QSq(QSub(a[k], b[k]))])

(* the local minimisers 2..9 (TLA+ indices 3..10): each from a fresh batch, redrawn while closer than 2 radius to the global one *)
RECURSIVE DrawLocal(_, _, _, _, _)
DrawLocal(st, dim, m1, radius, fuel) ==
  With(RanfArray(st, NumRnd), LAMBDA g :
  With([k \in 1..dim |-> Affine(g.aa[k])], LAMBDA p :
    IF fuel > 0 /\ QLt(Dist2(p, m1), QSq(QSub(QMul(Q2, radius), QFrac(1, 1000000000))))      \* (2 radius) - norm > 1e-10 (tested with 1e-9 margin)
    THEN DrawLocal(g.st, dim, m1, radius, fuel - 1)
    ELSE [p |-> p, st |-> g.st, aa |-> g.aa]))

RECURSIVE Locals(_, _, _, _, _, _)
Locals(st, dim, m1, radius, i, acc) ==
  IF i > 9 THEN acc
  ELSE With(DrawLocal(st, dim, m1, radius, 50), LAMBDA d :
         Locals(d.st, dim, m1, radius, i + 1, [pts |-> Append(acc.pts, d.p), last |-> d.aa]))

(* what the stream prescribes for GKLS function (dim, nf) with 10 minima; m1 = the global minimiser (its direction needs  *)
(* cos/sin and is taken from the object)                                                                                *)
GKLSStream(dim, nf, m1, radius) ==
  With(RanfArray(RanfStart((nf - 1) + 900 + dim * 1000000), NumRnd), LAMBDA g1 :
  With(RanfArray(g1.st, NumRnd), LAMBDA g2 :
  With(Locals(g2.st, dim, m1, radius, 2, [pts |-> <<>>, last |-> g2.aa]), LAMBDA ls :
    [vertex |-> [k \in 1..dim |-> Affine(g1.aa[k])],
     locals |-> ls.pts,
     peakmult |-> [i \in 1..8 |-> ls.last[dim + i]],          \* rnd_num[rnd_counter], rnd_counter = dim .. dim + 7 of the last batch
     first |-> g1.aa[1]])))
=============================================================================
