---------------------------- MODULE StopSkeleton ----------------------------
(***************************************************************************)
(* The counter skeleton of Process.Solve / DoGlobalIteration /             *)
(* Method.CheckStopCondition for an UNBOUNDED iteration limit and          *)
(* unbounded batch sizes: the part of C03 ("the number of objective        *)
(* evaluations ... never exceeds itersLimit", "trials = iterations") that  *)
(* TLC can only check up to small constants is discharged here as an       *)
(* inductive invariant with Apalache (integers, no state-space bound):     *)
(*     apalache-mc check --init=IndInit --inv=IndInv --length=1            *)
(*     apalache-mc check --init=Init    --inv=IndInv --length=0            *)
(* It is the control skeleton of AGPStep.tla with the arithmetic           *)
(* abstracted: whether the chosen interval is shorter than eps is a        *)
(* nondeterministic boolean (acc can only become true).                    *)
(***************************************************************************)
EXTENDS Integers

CONSTANT
  \* @type: Int;
  Limit

VARIABLES
  \* @type: Int;
  iters,
  \* @type: Int;
  trials,
  \* @type: Bool;
  acc,
  \* @type: Bool;
  first,
  \* @type: Str;
  pc,
  \* @type: Int;
  left,
  \* @type: Bool;
  insolve,
  \* @type: Int;
  entry

ConstInit == Limit \in Int /\ Limit >= 1

Stop == acc \/ iters >= Limit

Init == /\ iters = 0 /\ trials = 0 /\ acc = FALSE /\ first = TRUE /\ pc = "idle" /\ left = 0 /\ insolve = FALSE /\ entry = 0

CallDGI == /\ pc = "idle" /\ \E k \in Nat : (k >= 1 /\ left' = k)
           /\ pc' = "dgi" /\ insolve' = FALSE /\ UNCHANGED <<iters, trials, acc, first, entry>>
CallSolve == /\ pc = "idle" /\ pc' = "solve" /\ entry' = trials /\ UNCHANGED <<iters, trials, acc, first, left, insolve>>
SolveIterate == /\ pc = "solve" /\ ~Stop /\ pc' = "dgi" /\ left' = 1 /\ insolve' = TRUE /\ UNCHANGED <<iters, trials, acc, first, entry>>
SolveEnd == /\ pc = "solve" /\ Stop /\ pc' = "idle" /\ UNCHANGED <<iters, trials, acc, first, left, insolve, entry>>
(* one iteration: the first sets iterationsCount = 1, the later ones lower the accuracy (maybe below eps) and count up *)
IterFirst == /\ pc = "dgi" /\ left > 0 /\ first /\ iters' = 1 /\ acc' = acc
             /\ trials' = trials + 1 /\ first' = FALSE /\ left' = left - 1 /\ UNCHANGED <<pc, insolve, entry>>
IterLater == /\ pc = "dgi" /\ left > 0 /\ ~first /\ iters' = iters + 1 /\ acc' \in {acc, TRUE}
             /\ trials' = trials + 1 /\ first' = FALSE /\ left' = left - 1 /\ UNCHANGED <<pc, insolve, entry>>
Iterate == IterFirst \/ IterLater
EndDGI == /\ pc = "dgi" /\ left = 0 /\ pc' = (IF insolve THEN "solve" ELSE "idle") /\ UNCHANGED <<iters, trials, acc, first, left, insolve, entry>>

Next == CallDGI \/ CallSolve \/ SolveIterate \/ SolveEnd \/ Iterate \/ EndDGI

Max(a, b) == IF a >= b THEN a ELSE b
(* C03: objective calls = reported trials = iterations; inside Solve never more than max(itersLimit, what was there at entry) *)
IndInv ==
  /\ pc \in {"idle", "dgi", "solve"} /\ left >= 0 /\ iters >= 0 /\ trials >= 0 /\ entry >= 0
  /\ trials = iters /\ (first <=> trials = 0)
  /\ (acc => trials >= 2)
  /\ (pc = "solve" => trials <= Max(Limit, entry) /\ entry <= trials)
  /\ ((pc = "dgi" /\ insolve) => /\ left \in {0, 1} /\ entry <= trials
                                 /\ trials + left <= Max(Limit, entry) /\ (left = 1 => trials < Limit))
IndInit == /\ pc \in {"idle", "dgi", "solve"} /\ left \in Int /\ iters \in Int /\ trials \in Int /\ entry \in Int
           /\ acc \in BOOLEAN /\ first \in BOOLEAN /\ insolve \in BOOLEAN
           /\ IndInv
(* negative control: without the "what was there at entry" part the bound is false (DoGlobalIteration ignores the limit) *)
TooStrong == pc = "solve" => trials <= Limit
=============================================================================
