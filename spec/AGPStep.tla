------------------------------ MODULE AGPStep ------------------------------
(***************************************************************************)
(* One Solver instance of iOpt as a state record and its steps as pure     *)
(* operators on that record, at the granularity of the code:               *)
(*                                                                         *)
(*   Process.DoGlobalIteration / Process.Solve  (iOpt/method/process.py)   *)
(*   Method.FirstIteration / CalculateIterationPoint / CalculateFunctionals*)
(*   / UpdateOptimum / RenewSearchData / FinalizeIteration / CheckStop     *)
(*                                               (iOpt/method/method.py)   *)
(*   SearchData.InsertDataItem / RefillQueue / GetDataItemWithMaxGlobalR   *)
(*                                          (iOpt/method/search_data.py)   *)
(*                                                                         *)
(* The only points where foreign code runs are (a) the objective call      *)
(* (pc = "eval") and (b) listener callbacks; these are the pc values at    *)
(* which another solver may act in AGPMulti.tla and where the environment  *)
(* chooses the objective value (or an exception) in AGP.tla.               *)
(*                                                                         *)
(* The state record                                                        *)
(*   pts    search information, AGPCore records [x, z, d, R] sorted by x   *)
(*   queue  the DEPQ as a set of <<x of the item, key>>                    *)
(*   M, Zb  slope estimate (>= 1), best value ("none" before a trial)      *)
(*   best   x of the best trial ("none")                                   *)
(*   recalc the flag Method.recalc                                         *)
(*   iters  Method.iterationsCount;  trials  Solution.numberOfGlobalTrials *)
(*   minD   Solution.solutionAccuracy ("inf" initially)                    *)
(*   first  Process.__first_iteration                                      *)
(*   pc     "idle" | "dgi" (loop head of DoGlobalIteration) | "eval" |     *)
(*          "solve" (loop head of Solve)                                   *)
(*   left   iterations left in the current DoGlobalIteration call          *)
(*   insolve the DoGlobalIteration in progress was issued by Solve         *)
(*   t, nx  interval popped by CalculateIterationPoint and the new point   *)
(*   newp   savedNewPoints of the current DoGlobalIteration call           *)
(*   fault  an exception escaped from the objective in the current call    *)
(*   broken the interval popped before a failed evaluation was never       *)
(*          re-queued (true from the first contained failure on)           *)
(*   notif  notifications delivered to an attached listener, in order      *)
(*   evals  x of every objective call, in order (incl. failed ones: <<x,F>>)*)
(*   cds    Hoelder lengths of the intervals popped so far                 *)
(***************************************************************************)
EXTENDS AGPCore, TLC

CONSTANTS Rr,       \* reliability parameter r > 1 (Q string)
          Eps,      \* accuracy (Q string)
          Limit,    \* itersLimit >= 1
          Variant   \* "code": the solver as written.  Deliberately wrong disciplines, used only as NEGATIVE controls
                    \* (TLC must refute an invariant): "NoFlagOnM" (recalc not raised when M grows), "NoRequeueRight"
                    \* (the right part of a split interval is not put back into the queue), "AccFromNew" (accuracy
                    \* taken from the new intervals instead of the subdivided one)

(* TLC re-evaluates a LET definition at every use; With binds an expensive value exactly once *)
With(v, F(_)) == CHOOSE r \in {F(x) : x \in {v}} : TRUE

InitSolver ==
  [pts |-> <<>>, queue |-> {}, M |-> Q1, Zb |-> None, best |-> None, recalc |-> TRUE,
   iters |-> 0, trials |-> 0, minD |-> "inf", first |-> TRUE,
   pc |-> "idle", left |-> 0, insolve |-> FALSE, t |-> 0, nx |-> None, newp |-> <<>>,
   fault |-> FALSE, broken |-> FALSE, notif |-> <<>>, evals |-> <<>>, cds |-> <<>>]

(* keys of the queue: rationals or "-inf" *)
KeyLeq(a, b) == IF a = "-inf" THEN TRUE ELSE IF b = "-inf" THEN FALSE ELSE QLeq(a, b)
MaxEntries(qu) == {e \in qu : \A f \in qu : KeyLeq(f[2], e[2])}

IndexOfX(pts, x) == CHOOSE i \in 1..Len(pts) : pts[i].x = x

(* CheckStopCondition *)
Stop(s) == InfLt(s.minD, Eps) \/ s.iters >= Limit

(* entries RefillQueue creates: one per item, the left end included (key -inf) *)
AllEntries(pts) == {<<pts[i].x, pts[i].R>> : i \in 1..Len(pts)}

---------------------------------------------------------------------------
(* public call DoGlobalIteration(k), k >= 1 *)
CallDGI(s, k) == [s EXCEPT !.pc = "dgi", !.left = k, !.insolve = FALSE, !.newp = <<>>, !.fault = FALSE]

(* public call Solve *)
CallSolve(s) == [s EXCEPT !.pc = "solve", !.fault = FALSE]

(* loop head of Solve: either the stop criterion holds (-> SolveEnd) or one DoGlobalIteration() is issued *)
SolveIterate(s) == [s EXCEPT !.pc = "dgi", !.left = 1, !.insolve = TRUE, !.newp = <<>>]

(* end of Solve (refinement is an environment step outside this module): OnMethodStop, return *)
SolveEnd(s) == [s EXCEPT !.pc = "idle", !.notif = Append(@, <<"stop", s.best, s.trials, Stop(s), s.fault>>)]

(* loop head of DoGlobalIteration with left > 0: prepare the next evaluation *)
(* first iteration: BeforeMethodStart, iterationsCount = 1, the point 1/2 *)
BeginFirst(s) ==
  [s EXCEPT !.pc = "eval", !.t = 0, !.nx = QHalf, !.iters = 1,
            !.notif = Append(@, <<"before", Len(s.evals)>>)]

(* later iterations: CalculateIterationPoint = recalc-if-flagged, pop a maximal entry, update the accuracy, *)
(* compute the new point.  e = the popped entry (any entry with maximal key).                            *)
Recalced(s) ==
  IF s.recalc
  THEN With(Recalc(s.pts, QMul(Rr, s.M), s.Zb), LAMBDA p : [s EXCEPT !.pts = p, !.queue = AllEntries(p), !.recalc = FALSE])
  ELSE s
(* GetDataItemWithMaxGlobalR: an empty queue is refilled first *)
Refilled(s) == IF s.queue = {} THEN [s EXCEPT !.queue = AllEntries(s.pts)] ELSE s
PopChoices(s) == MaxEntries(Refilled(Recalced(s)).queue)
(* If failed evaluations have drained the queue down to the entry of the left end item (key -inf; RefillQueue inserts it too),   *)
(* the code pops that item, finds no left neighbour and raises ("Left point is NONE") before any evaluation: modelled as an      *)
(* aborted iteration.  Once the queue is empty the next request refills it.                                                       *)
BeginIter(s, e) ==
  With(Recalced(s), LAMBDA s1 :
    With(IndexOfX(s1.pts, e[1]), LAMBDA t :
      With(s1.pts, LAMBDA p :
        IF t = 1
        THEN [s1 EXCEPT !.queue = @ \ {e}, !.pc = IF s1.insolve THEN "solvetail" ELSE "idle", !.fault = TRUE, !.broken = TRUE, !.left = 0]
        ELSE
        [s1 EXCEPT !.pc = "eval", !.t = t, !.queue = @ \ {e},
                   !.minD = InfMin(@, p[t].d), !.cds = Append(@, p[t].d),
                   !.nx = NextX(p[t - 1].x, p[t].x, p[t - 1].z, p[t].z, Rr, s1.M)])))

(* the objective returned z *)
EvalFirst(s, z) ==
  With(Recalc(FirstPts(z), QMul(Rr, Q1), z), LAMBDA p0 :
  [s EXCEPT !.pc = "dgi", !.left = @ - 1, !.trials = @ + 1, !.evals = Append(@, <<QHalf, TRUE>>),
            !.best = QHalf, !.Zb = z, !.recalc = TRUE, !.first = FALSE,
            !.pts = p0, !.queue = {<<p0[2].x, p0[2].R>>, <<p0[3].x, p0[3].R>>},
            !.newp = Append(@, QHalf)])

EvalIter(s, z) ==
  With(s.t, LAMBDA t :
  With(QLt(z, s.Zb), LAMBDA better :                                  \* UpdateOptimum: strictly smaller only
  With(IF better THEN z ELSE s.Zb, LAMBDA Zn :
  With(InsertAt(s.pts, t, s.nx, z), LAMBDA ins :                      \* RenewSearchData: the two lengths
  With(MaxOf(NewSlopes(ins, t), s.M), LAMBDA Mn :                     \* CalculateM (new,left), (old,new)
  With(QMul(Rr, Mn), LAMBDA rMn :
  With([i \in 1..Len(ins) |->
          IF i = t \/ i = t + 1 THEN [ins[i] EXCEPT !.R = Char(ins[i - 1].z, ins[i].z, ins[i].d, rMn, Zn)]
          ELSE ins[i]], LAMBDA p1 :                                    \* CalculateGlobalR for the two new intervals only
    [s EXCEPT !.pc = "dgi", !.left = @ - 1, !.trials = @ + 1, !.iters = @ + 1,
              !.evals = Append(@, <<s.nx, TRUE>>),
              !.best = IF better THEN s.nx ELSE @, !.Zb = Zn, !.M = Mn,
              !.recalc = @ \/ better \/ (Mn # s.M /\ Variant # "NoFlagOnM"),
              !.pts = p1, !.queue = @ \cup {<<p1[t].x, p1[t].R>>}
                                           \cup (IF Variant = "NoRequeueRight" THEN {} ELSE {<<p1[t + 1].x, p1[t + 1].R>>}),
              !.minD = IF Variant = "AccFromNew" THEN InfMin(@, InfMin(p1[t].d, p1[t + 1].d)) ELSE @,
              !.newp = Append(@, s.nx), !.t = 0, !.nx = None])))))))

Eval(s, z) == IF s.first THEN EvalFirst(s, z) ELSE EvalIter(s, z)

(* the objective raised: the exception leaves DoGlobalIteration without notifying listeners; *)
(* inside Solve it is caught (BaseException) and Solve proceeds to its tail                   *)
Raise(s) ==
  [s EXCEPT !.pc = IF s.insolve THEN "solvetail" ELSE "idle", !.fault = TRUE, !.left = 0,
            !.broken = @ \/ ~s.first, !.evals = Append(@, <<s.nx, FALSE>>), !.t = 0, !.nx = None]

(* loop end of DoGlobalIteration: OnEndIteration(savedNewPoints, results) *)
EndDGI(s) ==
  [s EXCEPT !.pc = IF s.insolve THEN "solve" ELSE "idle",
            !.notif = Append(@, <<"enditer", s.newp, s.best>>)]
=============================================================================
