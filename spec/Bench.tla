-------------------------------- MODULE Bench --------------------------------
(***************************************************************************)
(* C10 for the families whose objective is a rational function, written    *)
(* out here and evaluated exactly, or separable into one-dimensional       *)
(* functions certified by Cert1D.tla:                                      *)
(*                                                                         *)
(*  XSquared(N)   f = sum x_i^2 >= 0 = f(0)                                *)
(*  Rastrigin(N)  f = sum g(x_i), g(t) = t^2 - 10 cos(2 pi t) + 10; the    *)
(*                N-dimensional minimum is the sum of the 1-D minima, so   *)
(*                the claim reduces to the Cert1D certificate of g plus    *)
(*                separability, which is checked on observed values        *)
(*  Shekel4(k)    f = - sum_i 1 / (||x - a_i||^2 + c_i) on [0,10]^4: a     *)
(*                branch-and-bound TREE (each node splits its box into 16) *)
(*                tiles the box by construction; on every leaf the exact   *)
(*                interval lower bound  - sum_i 1/(dist(a_i, leaf)^2+c_i)  *)
(*                must exceed the value at the declared point, unless the  *)
(*                leaf lies within delta of the declared point (where it   *)
(*                must still be above f* - tolerance)                      *)
(* In every case the real Calculate is tied to the formula by comparing    *)
(* observed values with the exact evaluation at the same points.           *)
(***************************************************************************)
EXTENDS Q, Sequences, Integers, FiniteSets, Json, IOUtils, TLC

Recs == ndJsonDeserialize(IOEnv.TRACE_FILE)

Rel9 == QFrac(1, 1000000000)
CloseRel(a, b) == QClose(a, b, QAdd(QMul(QAbs(b), Rel9), Rel9))
InBox(p, lo, up) == \A k \in 1..Len(p) : QLeq(lo[k], p[k]) /\ QLeq(p[k], up[k])

(* ---------------- XSquared ---------------- *)
XSq(y) == QSum([k \in 1..Len(y) |-> QSq(y[k])])
XSqFails(r) ==
     (IF \A k \in 1..Len(r.opt) : r.opt[k] = Q0 THEN {} ELSE {"DeclaredPointNotMinimiser"})       \* sum x^2 = 0 iff x = 0
\cup (IF r.optv = Q0 THEN {} ELSE {"DeclaredValue"})
\cup (IF InBox(r.opt, r.lo, r.up) THEN {} ELSE {"DeclaredPointOutsideBox"})
\cup {"FormulaMismatch" : k \in {j \in 1..Len(r.pts) : ~CloseRel(r.pts[j][2], XSq(r.pts[j][1]))}}

(* ---------------- Rastrigin: separability ---------------- *)
RasFails(r) ==
     (IF \A k \in 1..Len(r.opt) : r.opt[k] = Q0 THEN {} ELSE {"DeclaredPointNotMinimiser"})
\cup (IF r.optv = Q0 THEN {} ELSE {"DeclaredValue"})
\cup (IF InBox(r.opt, r.lo, r.up) THEN {} ELSE {"DeclaredPointOutsideBox"})
     \* pts[j] = <<y, f(y), <<g(y_1), ..., g(y_N)>>>> all observed (g through the 1-dimensional instance)
\cup {"NotSeparable" : k \in {j \in 1..Len(r.pts) : ~CloseRel(r.pts[j][2], QSum(r.pts[j][3]))}}

(* ---------------- Shekel4 ---------------- *)
S4(r, y) == QNeg(QSum([i \in 1..r.maxI |-> QDivR(Q1, QAdd(QSum([j \in 1..4 |-> QSq(QSub(y[j], r.A[i][j]))]), r.C[i]))]))
(* distance from a to the interval [lo, hi] *)
DistTo(a, lo, hi) == IF QLt(a, lo) THEN QSub(lo, a) ELSE IF QLt(hi, a) THEN QSub(a, hi) ELSE Q0
S4Low(r, lo, hi) == QNeg(QSum([i \in 1..r.maxI |-> QDivR(Q1, QAdd(QSum([j \in 1..4 |-> QSq(DistTo(r.A[i][j], lo[j], hi[j]))]), r.C[i]))]))

Child(lo, hi, k) ==   \* k in 0..15: bit j-1 of k selects the upper half in coordinate j
  LET bit(j) == (k \div (IF j = 1 THEN 1 ELSE IF j = 2 THEN 2 ELSE IF j = 3 THEN 4 ELSE 8)) % 2
      mid(j) == QMul(QHalf, QAdd(lo[j], hi[j]))
  IN << [j \in 1..4 |-> IF bit(j) = 1 THEN mid(j) ELSE lo[j]], [j \in 1..4 |-> IF bit(j) = 1 THEN hi[j] ELSE mid(j)] >>

(* TLC re-evaluates LET definitions at every use: With binds a value exactly once *)
With(v, F(_)) == CHOOSE x \in {F(y) : y \in {v}} : TRUE

(* tree: <<>> = leaf, or a sequence of 16 subtrees.  Returns <<number of leaves, number of failing leaves, leaves near the optimum>> *)
RECURSIVE Walk(_, _, _, _, _), WalkKids(_, _, _, _, _, _)
Walk(r, tree, lo, hi, fdecl) ==
  IF tree = <<>>
  THEN With(S4Low(r, lo, hi), LAMBDA lb :
         LET near == \A j \in 1..4 : QLeq(QSub(r.opt[j], r.delta), lo[j]) /\ QLeq(hi[j], QAdd(r.opt[j], r.delta))
             ok == QLt(fdecl, lb) \/ (near /\ QLeq(QSub(r.optv, r.tvlow), lb))
         IN <<1, IF ok THEN 0 ELSE 1, IF near THEN 1 ELSE 0>>)
  ELSE WalkKids(r, tree, lo, hi, fdecl, 1)
WalkKids(r, tree, lo, hi, fdecl, k) ==
  IF k > 16 THEN <<0, 0, 0>>
  ELSE With(Child(lo, hi, k - 1), LAMBDA c :
       With(Walk(r, tree[k], c[1], c[2], fdecl), LAMBDA a :
       With(WalkKids(r, tree, lo, hi, fdecl, k + 1), LAMBDA b :
         <<a[1] + b[1], a[2] + b[2], a[3] + b[3]>>)))

S4Verdict(r) ==
  \E fdecl \in {S4(r, r.opt)} : \E w \in {Walk(r, r.tree, r.lo, r.up, fdecl)} :
    PrintT(<<"BENCH", [kind |-> "shekel4", id |-> r.fn, leaves |-> w[1], near |-> w[3],
        failed |-> (IF w[2] = 0 THEN {} ELSE {"LeafNotExcluded"})
                   \* an observed value below the declared minimum by more than the tolerance, at a point of the box
                   \cup {"PointBelowDeclaredMinimum" : k \in {j \in 1..Len(r.refute) :
                            InBox(r.refute[j][1], r.lo, r.up) /\ QLt(r.refute[j][2], QSub(r.optv, r.tvlow))}}
                   \cup (IF CloseRel(r.optv, fdecl) /\ QLeq(QAbs(QSub(r.fobs, r.optv)), QFrac(1, 10000)) THEN {} ELSE {"DeclaredValue"})
                   \cup (IF InBox(r.opt, r.lo, r.up) THEN {} ELSE {"DeclaredPointOutsideBox"})
                   \cup {"FormulaMismatch" : k \in {j \in 1..Len(r.pts) : ~CloseRel(r.pts[j][2], S4(r, r.pts[j][1]))}}]>>)

VARIABLE tpos
Init == tpos = 1
Next == /\ tpos <= Len(Recs)
        /\ \E r \in {Recs[tpos]} :
             CASE r.kind = "xsquared"  -> PrintT(<<"BENCH", [kind |-> r.kind, id |-> r.n, leaves |-> 0, near |-> 0, failed |-> XSqFails(r)]>>)
               [] r.kind = "rastrigin" -> PrintT(<<"BENCH", [kind |-> r.kind, id |-> r.n, leaves |-> 0, near |-> 0, failed |-> RasFails(r)]>>)
               [] r.kind = "shekel4"   -> S4Verdict(r)
        /\ tpos' = tpos + 1
Spec == Init /\ [][Next]_tpos
=============================================================================
