----------------------------- MODULE ProblemReg -----------------------------
(***************************************************************************)
(* Sequential specification of the benchmark problems as a registry of     *)
(* pure functions (C15):                                                   *)
(*   Construct(f, m)  creates a new instance of member m of family f;      *)
(*   Eval(i, p)       evaluates instance i at point p.                     *)
(* The value of member (f, m) at p is a function of (f, m, p) only: the    *)
(* first evaluation of a key fixes it (memo), every later evaluation of    *)
(* the same key - by any instance of that member, after any history - must *)
(* return the same value; an evaluation changes nothing but the memo entry *)
(* of its own key.  The design module is explored exhaustively to generate *)
(* ALL short histories (hist) which the harness replays on the real        *)
(* classes; ProblemTrace.tla validates the recorded results.               *)
(***************************************************************************)
EXTENDS Sequences, Integers, FiniteSets, TLC

CONSTANTS Fams, Members, Points, Vals, Depth, Emit

VARIABLES live,   \* sequence of <<family, member>>: the instances created so far
          memo,   \* function from keys <<family, member, point>> (those evaluated so far) to values
          hist
vars == <<live, memo, hist>>

Init == live = <<>> /\ memo = <<>> /\ hist = <<>>

Key(i, p) == <<live[i][1], live[i][2], p>>
Known == {memo[k][1] : k \in 1..Len(memo)}
ValueOf(key) == LET k == CHOOSE j \in 1..Len(memo) : memo[j][1] = key IN memo[k][2]

Construct(f, m) == /\ Len(hist) < Depth
                   /\ live' = Append(live, <<f, m>>) /\ UNCHANGED memo
                   /\ hist' = Append(hist, <<"construct", f, m>>)
Eval(i, p) ==
  /\ Len(hist) < Depth
  /\ IF Key(i, p) \in Known
     THEN UNCHANGED memo                                   \* the value is determined
     ELSE \E v \in Vals : memo' = Append(memo, <<Key(i, p), v>>)
  /\ UNCHANGED live /\ hist' = Append(hist, <<"eval", i, p>>)

Next == (\E f \in Fams, m \in Members : Construct(f, m)) \/ (\E i \in 1..Len(live), p \in Points : Eval(i, p))
Spec == Init /\ [][Next]_vars

MemoIsFunction == \A j, k \in 1..Len(memo) : memo[j][1] = memo[k][1] => j = k
(* an evaluation never changes the value recorded for any key (purity as an action property) *)
Pure == [][\A k \in 1..Len(memo) : memo'[k] = memo[k]]_vars
EmitHist == (Emit /\ Len(hist) = Depth) => PrintT(<<"HIST", hist>>)
=============================================================================
