------------------------------- MODULE Cert1D -------------------------------
(***************************************************************************)
(* Certificates for one-dimensional benchmark functions (Hill, Shekel):    *)
(* "the published minimum / maximum / Lipschitz-constant tables agree with *)
(* the function" (C18) and "the declared optimum is the global minimum"    *)
(* (C10) are claims about every real point of an interval.  TLC cannot     *)
(* evaluate sin or search a continuum; it CHECKS a certificate:            *)
(*                                                                         *)
(*  - the function is known through values OBSERVED from the real          *)
(*    Problem.Calculate at cell midpoints m and at m -+ h (so each cell    *)
(*    carries f(m-h), f(m), f(m+h)), and through bounds L1..L4 on its      *)
(*    first four derivatives which this module derives in exact arithmetic *)
(*    from the coefficient tables shipped with the code;                   *)
(*  - Taylor's theorem with these bounds turns the samples of a cell into  *)
(*    a lower bound of f, an upper bound of |f'| and a lower bound of f''  *)
(*    on the whole cell;                                                   *)
(*  - an (untrusted) search in the harness proposes the cells; the clauses *)
(*    below are sufficient conditions evaluated exactly.  A clause ends    *)
(*    "ok" (acceptance conditions hold), "violated" (a REFUTATION holds:   *)
(*    an observed value or a certified sign pattern contradicts the table) *)
(*    or "undecided" (neither; counted, never reported as a violation).    *)
(*                                                                         *)
(* A "min" certificate for declared value v at declared location x:        *)
(*    V = [vlo, vhi] a neighbourhood of x inside the domain [a, b];        *)
(*    conv   cells tiling V, on each f'' > 0            (f convex on V)    *)
(*    U = [xl, xr] with x - delta <= xl <= x <= xr <= x + delta, and       *)
(*           f'(xl) < 0 unless xl = a,  f'(xr) > 0 unless xr = b           *)
(*           => the minimiser of f over V is unique and lies in U          *)
(*    cover  cells tiling [a, vlo] and [vhi, b], on each f > f(x)          *)
(*           => every global minimiser lies in V, hence in U: within delta *)
(*              of the declared location;                                  *)
(*    value  |f(x) - v| <= tv, and f >= f(x) - (|f'(x)| + L2 delta) delta  *)
(*           on U  => the true minimum is within tv of v.                  *)
(* The maximum tables are the same certificate for -f.                     *)
(***************************************************************************)
EXTENDS Q, Sequences, Integers, FiniteSets, Json, IOUtils, TLC

Recs == ndJsonDeserialize(IOEnv.TRACE_FILE)

PiHi == QFrac(31415927, 10000000)          \* a rational above pi
TwoPiHi == QMul(Q2, PiHi)
Fact(n) == IF n = 1 THEN 1 ELSE IF n = 2 THEN 2 ELSE IF n = 3 THEN 6 ELSE 24

SumSeq(s) == QSum(s)

(* derivative bounds, n = 1..4 *)
(* Hill:   f = sum_i A_i sin(2 pi i x) + B_i cos(2 pi i x), i = 0..Len-1  =>  |f^(n)| <= sum_i (2 pi i)^n (|A_i| + |B_i|) *)
HillL(coef, n) == SumSeq([i \in 1..Len(coef.A) |-> QMul(QPowN(QMul(TwoPiHi, QInt(i - 1)), n), QAdd(QAbs(coef.A[i]), QAbs(coef.B[i])))])
(* Shekel: f = - sum_i 1 / (K_i (x - A_i)^2 + C_i);  1/(K u^2 + C) = (1/C) g(u sqrt(K/C)), g(t) = 1/(1+t^2), |g^(n)| <= n!   *)
(*         =>  |f^(n)| <= sum_i n! sqrt(K_i)^n / (C_i sqrt(C_i)^n)                                                       *)
ShekelL(coef, n) == SumSeq([i \in 1..Len(coef.K) |->
                      QDivR(QMul(QInt(Fact(n)), QPowN(QRootHi(coef.K[i], 2), n)), QMul(coef.C[i], QPowN(QRootLo(coef.C[i], 2), n)))])
(* Rastrigin in one variable: g(t) = t^2 - 10 cos(2 pi t) + 10 on [a, b] *)
RasL(r, n) == LET big == QMax(QAbs(r.a), QAbs(r.b)) IN
                QAdd(IF n = 1 THEN QMul(Q2, big) ELSE IF n = 2 THEN Q2 ELSE Q0, QMul(QInt(10), QPowN(TwoPiHi, n)))
LOf(r, n) == IF r.fam = "Hill" THEN HillL(r.coef, n) ELSE IF r.fam = "Shekel" THEN ShekelL(r.coef, n) ELSE RasL(r, n)

---------------------------------------------------------------------------
(* cells: <<lo, hi, fl, fm, fr>> with fl = f(m - h), fm = f(m), fr = f(m + h), m = (lo + hi) / 2 *)
W(c) == QSub(c[2], c[1])
D1(c, h) == QDivR(QSub(c[5], c[3]), QMul(Q2, h))
D2(c, h) == QDivR(QAdd(QSub(c[5], QMul(Q2, c[4])), c[3]), QSq(h))

Tiles(cells, lo, hi) ==
  IF cells = <<>> THEN lo = hi
  ELSE /\ cells[1][1] = lo /\ cells[Len(cells)][2] = hi
       /\ \A k \in 1..Len(cells) : QLt(cells[k][1], cells[k][2])
       /\ \A k \in 1..(Len(cells) - 1) : cells[k][2] = cells[k + 1][1]

(* errors of the difference quotients: truncation (Taylor) + rounding of the observed values (epsf each) *)
E1(L, h, epsf) == QAdd(QDivR(QMul(L[3], QSq(h)), "6"), QDivR(epsf, h))
E2(L, h, epsf) == QAdd(QDivR(QMul(L[4], QSq(h)), "c"), QDivR(QMul("4", epsf), QSq(h)))

(* lower bound of f on the cell *)
LowF(c, L, h, epsf) ==
  QSub(QSub(QSub(c[4], epsf), QMul(QAdd(QAbs(D1(c, h)), E1(L, h, epsf)), QMul(QHalf, W(c)))), QMul(L[2], QDivR(QSq(W(c)), "8")))
(* upper bound of |f'| on the cell *)
UpD(c, L, h, epsf) ==
  QAdd(QAdd(QAdd(QAbs(D1(c, h)), E1(L, h, epsf)), QMul(QAdd(QAbs(D2(c, h)), E2(L, h, epsf)), QMul(QHalf, W(c)))), QMul(L[3], QDivR(QSq(W(c)), "8")))
(* lower bound of f'' on the cell *)
LowDD(c, L, h, epsf) == QSub(QSub(D2(c, h), E2(L, h, epsf)), QMul(L[3], QMul(QHalf, W(c))))
(* certified sign of f' on the cell: 1, -1 or 0 (unknown) *)
SignD(c, L, h, epsf) ==
  LET slack == QAdd(E1(L, h, epsf), QMul(L[2], QMul(QHalf, W(c)))) IN
    IF QLt(slack, D1(c, h)) THEN 1 ELSE IF QLt(D1(c, h), QNeg(slack)) THEN 0 - 1 ELSE 0
(* derivative at a point from the pair <<f(p - h), f(p + h)>> *)
DP(pair, h) == QDivR(QSub(pair[2], pair[1]), QMul(Q2, h))

---------------------------------------------------------------------------
(* verdict of a "min" certificate m for function record r with tolerances tv (value) and delta (location) *)
MinVerdict(r, m, L, tv, tvlow, delta) ==
  \* tv: |f(x) - v| allowed; tvlow: how far below v the true minimum may lie; delta: distance of x from a global minimiser
  LET h == r.h  epsf == r.epsf
      e1 == E1(L, h, epsf)
      valueOK  == QLeq(QAbs(QSub(m.fdecl, m.v)), tv)
      valueBad == QLt(QAdd(tv, epsf), QAbs(QSub(m.fdecl, m.v)))
      lowerBad == m.wit # <<>> /\ QLt(QAdd(m.wit[2], epsf), QSub(m.v, tvlow))   \* an observed value below the declared minimum
      uOK == /\ QLeq(QSub(m.x, delta), m.xl) /\ QLeq(m.xl, m.x) /\ QLeq(m.x, m.xr) /\ QLeq(m.xr, QAdd(m.x, delta))
             /\ QLeq(r.a, m.xl) /\ QLeq(m.xr, r.b) /\ QLeq(m.vlo, m.xl) /\ QLeq(m.xr, m.vhi) /\ QLeq(r.a, m.vlo) /\ QLeq(m.vhi, r.b)
      convOK == /\ m.mode = "convex" /\ Tiles(m.conv, m.vlo, m.vhi)
                /\ \A k \in 1..Len(m.conv) : QLt(Q0, LowDD(m.conv[k], L, h, epsf))
      (* extremum at an end of the domain: f strictly monotone on V towards that end, so the minimiser over V is the end point *)
      monoOK == /\ m.mode = "monotone" /\ Tiles(m.conv, m.vlo, m.vhi)
                /\ \/ (m.vhi = r.b /\ m.xr = r.b /\ \A k \in 1..Len(m.conv) : SignD(m.conv[k], L, h, epsf) = 0 - 1)
                   \/ (m.vlo = r.a /\ m.xl = r.a /\ \A k \in 1..Len(m.conv) : SignD(m.conv[k], L, h, epsf) = 1)
      signOK == /\ (m.xl = r.a \/ (m.dl # <<>> /\ QLt(QAdd(DP(m.dl, h), e1), Q0)))
                /\ (m.xr = r.b \/ (m.dr # <<>> /\ QLt(e1, DP(m.dr, h))))
      above == QAdd(m.fdecl, epsf)
      coverOK == /\ Tiles(m.coverL, r.a, m.vlo) /\ Tiles(m.coverR, m.vhi, r.b)
                 /\ \A k \in 1..Len(m.coverL) : QLt(above, LowF(m.coverL[k], L, h, epsf))
                 /\ \A k \in 1..Len(m.coverR) : QLt(above, LowF(m.coverR[k], L, h, epsf))
      (* on U: f >= f(x) - (|f'(x)| + L2 delta) delta *)
      (* lower bound of f on V: a convex function lies above its tangent at x (|y - x| <= delta on U, which holds the  *)
      (* minimiser); in the monotone case the minimum over V is the observed value at the domain end                 *)
      dipOK == IF m.mode = "convex"
               THEN QLeq(QSub(m.v, tvlow), QSub(QSub(m.fdecl, epsf), QMul(QAdd(QAbs(DP(m.d, h)), e1), delta)))
               ELSE QLeq(QSub(m.v, tvlow), QSub(m.fend, epsf))
      located == uOK /\ ((convOK /\ signOK) \/ monoOK) /\ coverOK
      (* refutation of the location: f' has one certified sign on all of [x - delta, x + delta] (within the domain) and the *)
      (* end towards which f decreases is not a domain end => no minimiser of f over [a, b] within delta of x             *)
      ref == m.refute
      refOK == /\ ref # <<>>
               /\ Tiles(ref, ref[1][1], ref[Len(ref)][2])        \* contiguous cells covering the delta-neighbourhood within the domain
               /\ QLeq(ref[1][1], IF QLt(QSub(m.x, delta), r.a) THEN r.a ELSE QSub(m.x, delta))
               /\ QLeq(IF QLt(r.b, QAdd(m.x, delta)) THEN r.b ELSE QAdd(m.x, delta), ref[Len(ref)][2])
               /\ \E sg \in {1, 0 - 1} :
                     /\ \A k \in 1..Len(ref) : SignD(ref[k], L, h, epsf) = sg
                     /\ (IF sg = 1 THEN QLt(r.a, QSub(m.x, delta)) ELSE QLt(QAdd(m.x, delta), r.b))
  IN [value    |-> IF valueBad THEN "violated" ELSE IF lowerBad THEN "violated" ELSE IF valueOK /\ located /\ dipOK THEN "ok" ELSE "undecided",
      location |-> IF located THEN "ok" ELSE IF refOK THEN "violated" ELSE "undecided",
      why      |-> <<valueOK, uOK, convOK, monoOK, signOK, coverOK, dipOK>>,
      cells    |-> Len(m.coverL) + Len(m.coverR) + Len(m.conv) + Len(m.refute)]

(* Lipschitz-constant table: the constant is max |f'| over [a, b] *)
LipVerdict(r, lp, L, rel) ==
  LET h == r.h  epsf == r.epsf
      wit == QSub(QAbs(DP(lp.wit, h)), QDivR(epsf, h))        \* mean value theorem: some |f'(xi)| is at least this
      tiled == Tiles(lp.cells, r.a, r.b)
      hi == QMul(lp.L, QAdd(Q1, rel))   lo == QMul(lp.L, QSub(Q1, rel))
      allBelow(bound, strict) == \A k \in 1..Len(lp.cells) :
                                   IF strict THEN QLt(UpD(lp.cells[k], L, h, epsf), bound) ELSE QLeq(UpD(lp.cells[k], L, h, epsf), bound)
  IN [lip   |-> IF QLt(hi, wit) THEN "violated"                              \* the table is too small
                ELSE IF tiled /\ lp.cells # <<>> /\ allBelow(lo, TRUE) THEN "violated"     \* the table is too large
                ELSE IF tiled /\ allBelow(hi, FALSE) /\ QLeq(lo, wit) THEN "ok" ELSE "undecided",
      cells |-> Len(lp.cells)]

Verdict(r, L) ==
  [tid |-> r.tid, fam |-> r.fam, fn |-> r.fn,
   min |-> IF "min" \in DOMAIN r THEN MinVerdict(r, r.min, L, r.tv, r.tvlow, r.delta) ELSE <<>>,
   max |-> IF "max" \in DOMAIN r THEN MinVerdict(r, r.max, L, r.tv, r.tvlow, r.delta) ELSE <<>>,
   lip |-> IF "lip" \in DOMAIN r THEN LipVerdict(r, r.lip, L, r.rel) ELSE <<>>,
   L1  |-> QFloorInt(L[1])]

VARIABLE tpos
Init == tpos = 1
Next == /\ tpos <= Len(Recs)
        /\ \E L \in {<<LOf(Recs[tpos], 1), LOf(Recs[tpos], 2), LOf(Recs[tpos], 3), LOf(Recs[tpos], 4)>>} :   \* bound once
              PrintT(<<"CERT", Verdict(Recs[tpos], L)>>)
        /\ tpos' = tpos + 1
Spec == Init /\ [][Next]_tpos
=============================================================================
