------------------------------ MODULE AGPCore ------------------------------
(***************************************************************************)
(* The arithmetic of Strongin's information-statistical global search      *)
(* algorithm (AGP) as iOpt/method/method.py computes it, on exact          *)
(* rationals (module Q).  Shared by the design model AGP.tla (exhaustive   *)
(* over all objectives with values in a finite set) and by the trace       *)
(* module AGPTrace.tla (validation of runs of the real solver).            *)
(*                                                                         *)
(* The search information is a sequence of points ordered by the curve     *)
(* coordinate x, each a record                                             *)
(*     [x, z, d, R]   z = "none" for the two end points 0 and 1 (never     *)
(*                    evaluated); d = Hoelder length of the interval       *)
(*                    ENDING at this point, (x - x_left)^(1/N);            *)
(*                    R = characteristic of that interval ("-inf" for the  *)
(*                    first point, which ends no interval).                *)
(* An interval is named by the index of its right end (as in the code).    *)
(***************************************************************************)
EXTENDS Q, Sequences, Integers, FiniteSets

CONSTANTS Dim,      \* dimension N of the problem (1..5)
          Exact     \* TRUE: exact division (ties are exact ties); FALSE: division rounded to 2^-128 relative

Div(a, b) == IF Exact THEN QDiv(a, b) ELSE QDivR(a, b)

None == "none"
IsEval(p) == p.z # None

(* Hoelder length of [xl, xr]: (xr - xl)^(1/N).  For N >= 2 a dyadic lower *)
(* enclosure with relative error <= 2^-72, far inside every tolerance.     *)
Delta(xl, xr) == IF Dim = 1 THEN QSub(xr, xl) ELSE QRootLo(QSub(xr, xl), Dim)

(* |zr - zl| / d : the slope of a pair of evaluated neighbours *)
Slope(zl, zr, d) == Div(QAbs(QSub(zr, zl)), d)

(* The three-case characteristic (CalculateGlobalR).  rM = r * M. *)
CharInner(zl, zr, d, rM, Zb) ==
  QSub(QAdd(d, Div(QSq(QSub(zr, zl)), QMul(QSq(rM), d))),
       Div(QMul(Q2, QSub(QAdd(zr, zl), QMul(Q2, Zb))), rM))
CharEdge(z, d, rM, Zb) ==
  QSub(QMul(Q2, d), Div(QMul("4", QSub(z, Zb)), rM))

Char(zl, zr, d, rM, Zb) ==
  IF zl # None /\ zr # None THEN CharInner(zl, zr, d, rM, Zb)
  ELSE IF zl = None THEN CharEdge(zr, d, rM, Zb)      \* left boundary interval [0, x]
  ELSE CharEdge(zl, d, rM, Zb)                        \* right boundary interval [x, 1]

(* magnitude of the terms of Char: scale of the rounding error of the double computation *)
CharScale(zl, zr, d, rM, Zb) ==
  IF zl # None /\ zr # None
  THEN QAdd(QAdd(d, Div(QSq(QSub(zr, zl)), QMul(QSq(rM), d))),
            Div(QMul(Q2, QAdd(QAdd(QAbs(zr), QAbs(zl)), QMul(Q2, QAbs(Zb)))), rM))
  ELSE LET z == IF zl = None THEN zr ELSE zl
       IN QAdd(QMul(Q2, d), Div(QMul("4", QAdd(QAbs(z), QAbs(Zb))), rM))

(* The point of the next trial in [xl, xr] (CalculateNextPointCoordinate). *)
NextX(xl, xr, zl, zr, r, M) ==
  LET mid == QMul(QHalf, QAdd(xl, xr)) IN
    IF zl = None \/ zr = None THEN mid
    ELSE LET dz == QSub(zr, zl)
             sh == Div(QPowN(Div(QAbs(dz), M), Dim), QMul(Q2, r))
         IN IF QSign(dz) > 0 THEN QSub(mid, sh) ELSE QAdd(mid, sh)   \* the code: dg = 1 if dif > 0 else -1

(* characteristics of all intervals for the current estimates (RecalcAllCharacteristics) *)
Recalc(pts, rM, Zb) ==
  [i \in 1..Len(pts) |->
     IF i = 1 THEN [pts[i] EXCEPT !.R = "-inf"]
     ELSE [pts[i] EXCEPT !.R = Char(pts[i - 1].z, pts[i].z, pts[i].d, rM, Zb)]]

(* index of the interval containing x strictly inside, 0 if x is outside (0,1) or equals a point *)
(* (pts is ordered by x: binary search - a linear scan costs thousands of comparisons per trial in long traces)   *)
RECURSIVE LocBin(_, _, _, _)
LocBin(pts, x, lo, hi) ==     \* least i in lo..hi with x <= pts[i].x, given pts[lo - 1].x < x <= pts[hi].x
  IF lo >= hi THEN hi
  ELSE IF QLt(pts[(lo + hi) \div 2].x, x) THEN LocBin(pts, x, ((lo + hi) \div 2) + 1, hi)
       ELSE LocBin(pts, x, lo, (lo + hi) \div 2)
Locate(pts, x) ==
  IF Len(pts) < 2 THEN 0
  ELSE IF ~(QLt(pts[1].x, x) /\ QLt(x, pts[Len(pts)].x)) THEN 0
  ELSE LET i == LocBin(pts, x, 2, Len(pts)) IN IF QLt(x, pts[i].x) THEN i ELSE 0

(* insert a new evaluated point into interval t; returns the new sequence with the lengths of the *)
(* two new intervals set (RenewSearchData, first two lines) and R of both marked to be computed   *)
InsertAt(pts, t, x, z) ==
  LET new   == [x |-> x, z |-> z, d |-> Delta(pts[t - 1].x, x), R |-> "?"]
      right == [pts[t] EXCEPT !.d = Delta(x, pts[t].x), !.R = "?"]
  IN SubSeq(pts, 1, t - 1) \o <<new, right>> \o SubSeq(pts, t + 1, Len(pts))

(* the two slopes a new point at index t contributes to M (CalculateM is called for (new,left) and (right,new)) *)
NewSlopes(pts, t) ==
  (IF IsEval(pts[t - 1]) THEN {Slope(pts[t - 1].z, pts[t].z, pts[t].d)} ELSE {})
  \cup (IF IsEval(pts[t + 1]) THEN {Slope(pts[t].z, pts[t + 1].z, pts[t + 1].d)} ELSE {})

MaxOf(S, x0) == IF S = {} THEN x0 ELSE
                  LET m == CHOOSE a \in S : \A b \in S : QLeq(b, a) IN QMax(m, x0)

(* the search information right after the first trial at x = 1/2 with value z *)
FirstPts(z) ==
  << [x |-> Q0,    z |-> None, d |-> Q0,               R |-> "-inf"],
     [x |-> QHalf, z |-> z,    d |-> Delta(Q0, QHalf), R |-> "?"],
     [x |-> Q1,    z |-> None, d |-> Delta(QHalf, Q1), R |-> "?"] >>

InfLt(a, b) == \* a < b where either may be "inf"
  IF a = "inf" THEN FALSE ELSE IF b = "inf" THEN TRUE ELSE QLt(a, b)
InfMin(a, b) == IF InfLt(b, a) THEN b ELSE a
=============================================================================
