----------------------------- MODULE SeqCompare -----------------------------
(***************************************************************************)
(* 2-safety clauses over pairs of recorded runs (C11, C12, C13): each      *)
(* record of the input names two sequences of exactly encoded values       *)
(* (trial coordinates, evaluated points, values, results) taken from two   *)
(* runs of the real solver and the relation the specification requires:    *)
(*   mode "prefix"  one is a prefix of the other (AGPPair.SameSequence)    *)
(*   mode "equal"   identical, element by element, bit for bit             *)
(*   mode "distinct" the elements of a (object identities) are pairwise    *)
(*                  different (AGPMulti.DistinctObjects)                   *)
(* The first differing index is reported.                                  *)
(***************************************************************************)
EXTENDS Sequences, Integers, Json, IOUtils, TLC

Recs == ndJsonDeserialize(IOEnv.TRACE_FILE)

Min2(a, b) == IF a < b THEN a ELSE b
FirstDiff(p, q) ==
  LET n == Min2(Len(p), Len(q))
      D == {i \in 1..n : p[i] # q[i]}
  IN IF D = {} THEN 0 ELSE CHOOSE i \in D : \A j \in D : i <= j

FirstDup(p) ==
  LET D == {i \in 1..Len(p) : \E j \in 1..(i - 1) : p[j] = p[i]}
  IN IF D = {} THEN 0 ELSE CHOOSE i \in D : \A j \in D : i <= j

Bad(r) ==
  IF r.mode = "distinct" THEN (IF FirstDup(r.a) > 0 THEN <<r.id, r.clause, FirstDup(r.a)>> ELSE <<>>) ELSE
  LET d == FirstDiff(r.a, r.b) IN
    IF d > 0 THEN <<r.id, r.clause, d>>
    ELSE IF r.mode = "equal" /\ Len(r.a) # Len(r.b) THEN <<r.id, r.clause, Min2(Len(r.a), Len(r.b)) + 1>>
    ELSE <<>>

VARIABLE done
Init == done = FALSE
Next == /\ ~done /\ done' = TRUE
        /\ PrintT(<<"VERDICT", [records |-> Len(Recs),
                                compared |-> LET F[i \in 0..Len(Recs)] == IF i = 0 THEN 0 ELSE F[i - 1] + Min2(Len(Recs[i].a), Len(Recs[i].b)) IN F[Len(Recs)],
                                failed |-> {Bad(Recs[i]) : i \in {j \in 1..Len(Recs) : Bad(Recs[j]) # <<>>}}]>>)
Spec == Init /\ [][Next]_done
=============================================================================
