------------------------------ MODULE AGPTrace ------------------------------
(***************************************************************************)
(* Trace validation of the real solver against the AGP specification.      *)
(*                                                                         *)
(* A trace file holds many solver runs (field tid); each starts with an    *)
(* "init" event.  The recorder is black-box (harness/agp_drv.py): trial    *)
(* events carry what the objective was called with and what the search     *)
(* information stores; "ret"/"cb" events carry a public snapshot of the     *)
(* search information and of the Solution object.  M, z*, every            *)
(* characteristic and the accuracy are NOT read from the solver: the       *)
(* specification recomputes them exactly from the history (AGPCore) and    *)
(* each event must be explained by it.  Failing clauses are collected      *)
(* (tfailed) so the whole trace is always examined; clause names are       *)
(* grouped by property:                                                    *)
(*   C02 First ArgMax Point Inside                                         *)
(*   C03 Count Budget StopLate StopEarly Accuracy SolveReturns NoIntExc    *)
(*   C04 BestValue BestIsTrial BestAtPoint BestPresent                     *)
(*   C05 InBox RefInBox RefNotWorse RefValue RefPointInBox                 *)
(*   C06 SnapCount SnapLinks SnapOrder SnapZ SnapHolder SnapDelta SnapImage*)
(*       SnapEnds ZLogged YLogged Image SameHolder                         *)
(*   C16 FailContained FailCount FailBest (FailRecord = the C06 clauses)   *)
(*   C20 OnGrid                                                            *)
(*   C13 NotifBefore NotifNewPoints NotifEndIterCount NotifStopCount       *)
(*       NotifStopFinal NotifStopStatus ConsoleReport                      *)
(***************************************************************************)
EXTENDS AGPCore, EvolventQ, Json, IOUtils, TLC

ASSUME Dim = N

Trace == ndJsonDeserialize(IOEnv.TRACE_FILE)

VARIABLES tpos, tfailed, tnfail, tdone, tstats,
          scfg,      \* the "init" event of the current run
          spts,      \* search information: sequence of [x, z, d, R, y] ordered by x (AGPCore) - empty before the first trial
          sM, sZ,    \* slope estimate (>= 1) and best value ("none" before the first trial)
          sminD,     \* smallest Hoelder length of a subdivided interval ("inf" before the second trial)
          strials,   \* completed trials
          spc,       \* "idle" | "dgi" | "solve": the public call in progress
          scall0,    \* strials when the call began
          sfault,    \* the objective raised during the current call
          slocal,    \* number of local-refinement evaluations seen in the current call
          sn         \* notifications seen by the recording listener (C13): [before, enditers, stops, new, stopsol, last]
                     \*   before/enditers/stops: counts (before: whole run; the others: current call)
                     \*   new: coordinates of the trials made since the last OnEndIteration / call start
                     \*   stopsol: solution snapshot passed to OnMethodStop; last: solution snapshot after the last call
vars == <<tpos, tfailed, tnfail, tdone, tstats, scfg, spts, sM, sZ, sminD, strials, spc, scall0, sfault, slocal, sn>>

R_  == scfg.r
rM  == QMul(scfg.r, sM)

Tol40 == QPow2(-40)
RelBelow(a, b) == QLt(a, QMul(b, QSub(Q1, Tol40)))     \* a is below b by more than rounding
RelAbove(a, b) == QLt(QMul(b, QAdd(Q1, Tol40)), a)

(* stop criterion of CheckStopCondition on the specification's state; "Def" = beyond rounding doubt *)
(* for N = 1 the code's interval length is the exact difference, so the comparison with eps is exact *)
StopDef   == (sminD # "inf" /\ (IF N = 1 THEN QLt(sminD, scfg.eps) ELSE RelBelow(sminD, scfg.eps))) \/ strials >= scfg.limit
StopMaybe == (sminD # "inf" /\ (IF N = 1 THEN QLt(sminD, scfg.eps) ELSE ~RelAbove(sminD, scfg.eps))) \/ strials >= scfg.limit

InBoxV(y) == \A k \in 1..N : QLeq(scfg.lo[k], y[k]) /\ QLeq(y[k], scfg.up[k])

(* --- clauses of one trial that do not depend on the search state --------------------------- *)
PointFails(e) ==
     (IF e.z = e.zlog /\ e.fv = e.zlog THEN {} ELSE {"ZLogged"})
\cup (IF e.y = e.ylog /\ e.yafter = e.ylog THEN {} ELSE {"YLogged"})
\cup (IF e.same_holder THEN {} ELSE {"SameHolder"})
\cup (IF InBoxV(e.ylog) THEN {} ELSE {"InBox"})
\cup (IF N = 1 THEN {"Image" : c \in {c2 \in Image1Fails(e.x, e.y, scfg.lo, scfg.up) : c2 = "ImgAffine"}}
              ELSE {"Image" : c \in {c2 \in ImageFails(e.x, e.y, scfg.lo, scfg.up, scfg.m) : c2 = "ImgCentre"}})
\cup (IF N >= 2 THEN OnGridFails(e.ylog, scfg.lo, scfg.up, scfg.m) ELSE {})

(* --- the decision rule (C02) ------------------------------------------------------------------ *)
ArgMaxFails(pts, t) ==
  IF sn.lost = "unknown" THEN {} ELSE
  IF strials < scfg.jfrom \/ strials % scfg.jstride # 0 THEN {} ELSE     \* very long runs: judged at sampled trials (state tracked at all)
  LET Rt == pts[t].R
      St == CharScale(pts[t - 1].z, pts[t].z, pts[t].d, rM, sZ) IN
  \* (the rounding allowance is evaluated only for the intervals whose characteristic exceeds the chosen one at all)
  {"ArgMax" : i \in {k \in {j \in 2..Len(pts) : j # t /\ pts[j].x # sn.lost /\ QLt(Rt, pts[j].R)} :
       QLt(QAdd(Rt, QTol(QAdd(St, CharScale(pts[k - 1].z, pts[k].z, pts[k].d, rM, sZ)))), pts[k].R)}}

(* the code's rounding error on x is about 2^-53 absolute plus 2^-52 N relative on the shift term *)
PointRuleFailsW(want, mid, x) ==
    IF QClose(x, want, QAdd(QPow2(-46), QMul(Tol40, QAbs(QSub(want, mid))))) THEN {} ELSE {"Point"}
PointRuleFails(pts, t, x) ==
  PointRuleFailsW(NextX(pts[t - 1].x, pts[t].x, pts[t - 1].z, pts[t].z, scfg.r, sM),
                  QMul(QHalf, QAdd(pts[t - 1].x, pts[t].x)), x)

StopFails ==
  IF spc = "solve" /\ sn.lost # "unknown" /\ StopDef THEN {"StopLate"} \cup (IF strials >= scfg.limit THEN {"Budget"} ELSE {}) ELSE {}

(* recompute characteristics: all of them if an estimate changed, otherwise only the two new intervals *)
Refresh(pts, t, changed, rMn, Zn) ==
  IF changed THEN Recalc(pts, rMn, Zn)
  ELSE [i \in 1..Len(pts) |->
          IF i = t \/ i = t + 1 THEN [pts[i] EXCEPT !.R = Char(pts[i - 1].z, pts[i].z, pts[i].d, rMn, Zn)]
          ELSE pts[i]]

(* --- snapshot clauses (C06, C04, C03) --------------------------------------------------------- *)
SnapFails(snp) ==
  IF "error" \in DOMAIN snp THEN {"SnapIter"}
  ELSE
     (IF snp.count = (IF strials = 0 THEN 0 ELSE strials + 2) /\ snp.n = snp.count THEN {} ELSE {"SnapCount"})
\cup (IF snp.links THEN {} ELSE {"SnapLinks"})
\cup (IF snp.items = <<>> \/ Len(snp.items) # Len(spts) THEN {}     \* summary snapshots carry no items
      ELSE   {"SnapOrder"  : i \in {k \in 1..Len(spts) : snp.items[k].x # spts[k].x}}
        \cup {"SnapZ"      : i \in {k \in 1..Len(spts) : snp.items[k].z # spts[k].z \/ snp.items[k].ev # (spts[k].z # None)}}
        \cup {"SnapHolder" : i \in {k \in 1..Len(spts) : snp.items[k].fv # spts[k].z}}
        \cup {"SnapEnds"   : i \in {k \in {1, Len(spts)} : snp.items[k].ev}}
        \cup {"SnapDelta"  : i \in {k \in 2..Len(spts) :
                 snp.items[k].d = "inf" \/ snp.items[k].d = "-inf" \/
                 ~QClose(QPowN(snp.items[k].d, N), QSub(spts[k].x, spts[k - 1].x),
                         QMul(QPow2(-38), QSub(spts[k].x, spts[k - 1].x)))}}
        \cup {"SnapImage"  : i \in {k \in 1..Len(spts) : snp.items[k].y # spts[k].y}})

BestFails(sol, bf, refined) ==
  IF strials = 0 THEN {}
  ELSE IF ~sol.has THEN {"BestPresent"}
  ELSE IF refined
       THEN (IF QLeq(sol.bv, sZ) THEN {} ELSE {"RefNotWorse"})
            \cup (IF bf = "skip" \/ bf = sol.bv THEN {} ELSE {"RefValue"})
            \cup (IF InBoxV(sol.by) THEN {} ELSE {"RefPointInBox"})
       ELSE (IF sol.bv = sZ THEN {} ELSE {"BestValue"})
            \cup (IF \E k \in 1..Len(spts) : spts[k].y = sol.by /\ spts[k].z = sol.bv THEN {} ELSE {"BestIsTrial"})
            \cup (IF bf = "skip" \/ bf = sol.bv THEN {} ELSE {"BestAtPoint"})

CountFails(sol) == IF sol.ntr = strials THEN {} ELSE {"Count"}

AccFails(sol) ==
  IF sminD = "inf" THEN (IF sol.acc = "inf" THEN {} ELSE {"Accuracy"})
  ELSE IF sol.acc \in {"inf", "-inf"} THEN {"Accuracy"}
  ELSE IF QClose(sol.acc, sminD, QMul(QPow2(-38), sminD)) THEN {} ELSE {"Accuracy"}

Sn0 == [before |-> 0, enditers |-> 0, stops |-> 0, new |-> <<>>, stopsol |-> <<>>, last |-> <<>>, lost |-> "none", lastref |-> FALSE, locmin |-> "none"]
(* locmin: smallest value the objective returned to the local refinement of the current call ("none": no such evaluation yet) *)
(* lastref: the solution left by the last call was a refined one (an observation must then be judged as refined, too) *)
(* sn.lost - what the code does after a contained failure (a deliberate deviation, modelled rather than idealised): the    *)
(* interval popped for the failed evaluation is NOT put back into the queue, so it cannot be chosen until the next full    *)
(* recalculation (the next change of M or of the best value) refills the queue.  lost = coordinate of that interval's right end, "none",  *)
(* or "unknown" (the failed point could not be located: arg-max and accuracy clauses are then waived for the rest of the run) *)
LocateNear(pts, xa) ==
  LET S == {i \in 2..Len(pts) : QLeq(pts[i - 1].x, xa) /\ QLt(xa, pts[i].x)}
  IN IF S = {} THEN 0 ELSE CHOOSE i \in S : TRUE
(* the failed point is known through its image only: its curve coordinate lies somewhere in the subinterval [xa, xa + 2^-(N m)) of that cell; *)
(* the interval it subdivides is identified only if one interval of the partition contains the whole subinterval (coarse densities: not always) *)
LocateCell(pts, xa) ==
  LET t == LocateNear(pts, xa) IN
    IF t = 0 \/ N = 1 THEN t
    ELSE IF QLeq(QAdd(xa, QPow2(0 - N * scfg.m)), pts[t].x) THEN t ELSE 0
Probing == "probing" \in DOMAIN scfg /\ scfg.probing      \* attached painters evaluate the objective for drawing
Hears(kind) == "cbs" \in DOMAIN scfg /\ \E i \in 1..Len(scfg.cbs) : scfg.cbs[i] = kind

---------------------------------------------------------------------------
Init ==
  /\ tpos = 1 /\ tfailed = {} /\ tnfail = 0 /\ tdone = FALSE
  /\ tstats = [runs |-> 0, trials |-> 0, argmax |-> 0, ties |-> 0, recalcs |-> 0, cert |-> 0, accstops |-> 0]
  /\ scfg = [n |-> 0] /\ spts = <<>> /\ sM = Q1 /\ sZ = None /\ sminD = "inf" /\ strials = 0
  /\ spc = "idle" /\ scall0 = 0 /\ sfault = FALSE /\ slocal = 0
  /\ sn = Sn0

Note(e, f) ==
  \* at most 6 recorded occurrences per clause, so that a frequent failure cannot hide a rarer one (all are counted in tnfail)
  /\ tfailed' = tfailed \cup {<<e.tid, e.id, c>> : c \in {c2 \in f : Cardinality({x \in tfailed : x[3] = c2}) < 6}}
  /\ tnfail' = tnfail + Cardinality(f)

EvInit(e) ==
  /\ scfg' = e /\ spts' = <<>> /\ sM' = Q1 /\ sZ' = None /\ sminD' = "inf" /\ strials' = 0
  /\ spc' = "idle" /\ scall0' = 0 /\ sfault' = FALSE /\ slocal' = 0 /\ sn' = Sn0
  /\ tstats' = [tstats EXCEPT !.runs = @ + 1]
  /\ Note(e, IF e.n = N THEN {} ELSE {"WrongDimensionInBatch"})

(* between two public calls the user changes the budget / accuracy on the parameters object: from now on these are "the" itersLimit and eps *)
EvSetParams(e) ==
  /\ scfg' = [scfg EXCEPT !.limit = e.limit, !.eps = e.eps]
  /\ Note(e, {})
  /\ UNCHANGED <<spts, sM, sZ, sminD, strials, spc, scall0, sfault, slocal, tstats, sn>>

EvCall(e) ==
  /\ spc' = e.name /\ scall0' = strials /\ sfault' = FALSE /\ slocal' = 0
  /\ Note(e, {})
  /\ sn' = [sn EXCEPT !.enditers = 0, !.stops = 0, !.new = <<>>, !.stopsol = <<>>, !.locmin = "none"]
  /\ UNCHANGED <<scfg, spts, sM, sZ, sminD, strials, tstats>>

EvFirstTrial(e) ==
  /\ strials = 0
  /\ LET f0 == (IF e.x = QHalf THEN {} ELSE {"First"}) \cup PointFails(e) \cup StopFails
         p0 == FirstPts(e.z)
         ys == << Q0, e.y, Q0 >>      \* end-point images are compared through the snapshot, see below
     IN /\ Note(e, f0)
        /\ sZ' = e.z /\ sM' = Q1
        /\ spts' = Recalc([i \in 1..3 |-> [x |-> p0[i].x, z |-> p0[i].z, d |-> p0[i].d, R |-> p0[i].R,
                                            y |-> IF i = 2 THEN e.y ELSE <<>>]], QMul(scfg.r, Q1), e.z)
  /\ strials' = 1 /\ sminD' = sminD
  /\ sn' = [sn EXCEPT !.new = Append(@, e.x)]
  /\ tstats' = [tstats EXCEPT !.trials = @ + 1]
  /\ UNCHANGED <<scfg, spc, scall0, sfault, slocal>>

TrialAt(e, t) ==
  \* t = index of the interval the new point fell into (0: none)
  IF t = 0
  THEN /\ Note(e, {"Inside"} \cup PointFails(e) \cup StopFails)
       /\ strials' = strials + 1
       /\ sn' = [sn EXCEPT !.new = Append(@, e.x)]
       /\ tstats' = [tstats EXCEPT !.trials = @ + 1]
       /\ UNCHANGED <<scfg, spts, sM, sZ, sminD, spc, scall0, sfault, slocal>>
  ELSE
    LET am  == ArgMaxFails(spts, t)
        f1  == am \cup PointRuleFails(spts, t, e.x) \cup PointFails(e) \cup StopFails
        ins == InsertAt(spts, t, e.x, e.z)
        p1  == [i \in 1..Len(ins) |-> IF i = t THEN [x |-> ins[i].x, z |-> ins[i].z, d |-> ins[i].d, R |-> ins[i].R, y |-> e.y]
                                       ELSE ins[i]]
    IN /\ Note(e, f1)
       /\ sminD' = InfMin(sminD, spts[t].d)
       /\ \E Mn \in {MaxOf(NewSlopes(p1, t), sM)} : \E Zn \in {QMin(sZ, e.z)} :
            /\ sM' = Mn /\ sZ' = Zn
            /\ spts' = Refresh(p1, t, Mn # sM \/ Zn # sZ, QMul(scfg.r, Mn), Zn)
            /\ tstats' = [tstats EXCEPT !.trials = @ + 1, !.argmax = @ + Len(spts) - 1,
                                        !.recalcs = @ + (IF Mn # sM \/ Zn # sZ THEN 1 ELSE 0),
                                        !.ties = @ + (IF \E k \in 2..Len(spts) : k # t /\ spts[k].R = spts[t].R THEN 1 ELSE 0)]
       /\ strials' = strials + 1
       /\ \E Mn \in {MaxOf(NewSlopes(p1, t), sM)} : \E Zn \in {QMin(sZ, e.z)} :
            \* the lost interval returns to the queue with the next full recalculation.  Whether M grew is decided by the code in floating point:
            \* a growth within rounding doubt (slopes equal up to the last bits, e.g. on a cone) may or may not have been seen, so the interval
            \* stays "lost" for the specification (= it is not REQUIRED to be chosen; choosing it is never an error)
            sn' = [sn EXCEPT !.new = Append(@, e.x), !.lost = IF @ # "unknown" /\ (RelAbove(Mn, sM) \/ Zn # sZ) THEN "none" ELSE @]
       /\ UNCHANGED <<scfg, spc, scall0, sfault, slocal>>

EvTrial(e) == IF strials = 0 THEN EvFirstTrial(e) ELSE TrialAt(e, Locate(spts, e.x))

EvFail(e) ==
  /\ sfault' = TRUE
  /\ Note(e, (IF InBoxV(e.ylog) THEN {} ELSE {"InBox"}) \cup StopFails)
  /\ \E t \in {IF strials > 0 /\ spc \in {"dgi", "solve"} /\ "xinv" \in DOMAIN e /\ e.xinv # "none" THEN LocateCell(spts, e.xinv) ELSE 0} :
       IF strials = 0 \/ spc \notin {"dgi", "solve"} THEN UNCHANGED <<sn, sminD>>
       ELSE /\ sn' = [sn EXCEPT !.lost = IF t = 0 THEN "unknown" ELSE spts[t].x]
            /\ sminD' = IF t = 0 THEN sminD ELSE InfMin(sminD, spts[t].d)       \* the accuracy is lowered before the evaluation
  /\ UNCHANGED <<scfg, spts, sM, sZ, strials, spc, scall0, slocal, tstats>>

EvLocal(e) ==
  /\ slocal' = slocal + 1
  /\ Note(e, (IF InBoxV(e.ylog) THEN {} ELSE {"RefInBox"})
             \cup (IF (spc = "solve" /\ scfg.refine) \/ spc = "localref" \/ Probing THEN {} ELSE {"UnexpectedEvaluation"})
             \cup (IF e.yafter = e.ylog THEN {} ELSE {"YLogged"}))
  /\ sn' = IF Probing \/ ~((spc = "solve" /\ scfg.refine) \/ spc = "localref") THEN sn
           ELSE [sn EXCEPT !.locmin = IF @ = "none" THEN e.zlog ELSE QMin(@, e.zlog)]
  /\ UNCHANGED <<scfg, spts, sM, sZ, sminD, strials, spc, scall0, sfault, tstats>>

(* the end points' stored images: image(0) and image(1) - checked once per snapshot with items *)
EndsFails(snp) ==
  IF "error" \in DOMAIN snp \/ snp.items = <<>> \/ Len(snp.items) < 3 THEN {}
  ELSE LET a == snp.items[1]  b == snp.items[Len(snp.items)] IN
    IF N = 1 THEN {"SnapImage" : c \in ({c2 \in Image1Fails(Q0, a.y, scfg.lo, scfg.up) : c2 # "ImgInBox"}
                                        \cup {c2 \in Image1Fails(Q1, b.y, scfg.lo, scfg.up) : c2 # "ImgInBox"})}
    ELSE {"SnapImage" : c \in (ImageFails(Q0, a.y, scfg.lo, scfg.up, scfg.m) \cup ImageFails(Q1, b.y, scfg.lo, scfg.up, scfg.m))}

SnapAll(snp) ==
  \* stored points of the two end items are not part of spts: compare the rest, and the ends with the evolvent
  LET core == SnapFails([snp EXCEPT !.items =
                 IF "error" \notin DOMAIN snp /\ snp.items # <<>> /\ Len(snp.items) = Len(spts)
                 THEN [k \in 1..Len(snp.items) |-> IF k \in {1, Len(snp.items)} THEN [snp.items[k] EXCEPT !.y = <<>>] ELSE snp.items[k]]
                 ELSE (IF "error" \in DOMAIN snp THEN <<>> ELSE snp.items)])
  IN core \cup EndsFails(snp)
     \cup (IF "error" \notin DOMAIN snp /\ snp.items # <<>> /\ Len(snp.items) # Len(spts) THEN {"SnapCount"} ELSE {})

(* C01: certified eps-optimality.  scfg.lip = Lipschitz constant of the objective on the box normalised to unit side,     *)
(* scfg.fmin = its true global minimum over the box (both known analytically for the objectives of these scenarios).     *)
(* The premise is tested with an UPPER bound of K_N and the conclusion with an upper bound of the grid term, so rounding  *)
(* can only make the clause weaker.                                                                                      *)
KHi == IF N = 1 THEN Q2 ELSE QMul(QDivR("8", QRootLo(Q2, N)), QRootHi(QInt(N + 3), 2))
HasLip == "lip" \in DOMAIN scfg /\ scfg.lip # "none"
AccStop == sminD # "inf" /\ strials >= 2 /\ (IF N = 1 THEN QLt(sminD, scfg.eps) ELSE RelBelow(sminD, scfg.eps))
Premise == QLeq(QMul(KHi, scfg.lip), rM)
GridTerm == IF N = 1 THEN Q0
            ELSE QMul(QMul(scfg.lip, QPow2(0 - scfg.m)), QAdd(QRootHi(QInt(N + 3), 2), QMul(QHalf, QRootHi(QInt(N), 2))))
CertBound == QAdd(QMul(QMul(QHalf, rM), scfg.eps), GridTerm)
CertFails(e) ==
  IF e.name = "solve" /\ ~sfault /\ HasLip /\ AccStop /\ Premise /\ e.sol.has
  THEN (IF QLt(QSub(e.sol.bv, scfg.fmin), CertBound) THEN {} ELSE {"Certified"})
  ELSE {}

(* C13, at the return of a public call: the right number of notifications was delivered during the call *)
SolKey(sol) == <<sol.ntr, sol.nloc, sol.acc, sol.by, sol.bv>>
NotifRetFails(e) ==
  IF e.raised # "none" THEN {}
  ELSE IF sfault
  THEN \* a contained failure ends the iteration loop, not Solve: the listeners are still told once, with the solution Solve returns
       (IF Hears("stop") /\ e.name = "solve" /\ sn.stops # 1 THEN {"NotifStopCount"} ELSE {})
       \cup (IF Hears("stop") /\ e.name = "solve" /\ sn.stops = 1 /\ sn.stopsol # SolKey(e.sol) THEN {"NotifStopFinal"} ELSE {})
  ELSE
     (IF Hears("before") /\ strials > 0 /\ sn.before # 1 THEN {"NotifBefore"} ELSE {})
\cup (IF Hears("enditer") /\ e.name = "dgi" /\ sn.enditers # 1 THEN {"NotifEndIterCount"} ELSE {})
\cup (IF Hears("enditer") /\ e.name = "solve" /\ sn.enditers # strials - scall0 THEN {"NotifEndIterCount"} ELSE {})
\cup (IF Hears("enditer") /\ e.name \in {"dgi", "solve"} /\ sn.new # <<>> THEN {"NotifNewPoints"} ELSE {})
\cup (IF Hears("stop") /\ sn.stops # (IF e.name = "solve" THEN 1 ELSE 0) THEN {"NotifStopCount"} ELSE {})
\cup (IF Hears("stop") /\ e.name = "solve" /\ sn.stops = 1 /\ sn.stopsol # SolKey(e.sol) THEN {"NotifStopFinal"} ELSE {})

(* The solver's own precision guard: CalculateNextPointCoordinate raises ("x is outside of interval") when the rule's point cannot *)
(* be told from an end of the chosen interval in double precision.  It is legitimate only when some interval has shrunk to the     *)
(* resolution of doubles (here: below 2^-40); the iteration is then abandoned like a failed evaluation (the popped interval is     *)
(* lost, the accuracy was already lowered), so the clauses that presuppose a completed call are waived - but a guard that fires    *)
(* while every interval is wide is a failure (SpuriousGuard).                                                                       *)
Guarded(e) == "guard" \in DOMAIN e /\ e.guard
AtResolution == \E k \in 2..Len(spts) : QLeq(QSub(spts[k].x, spts[k - 1].x), QPow2(0 - 40))

EvRet(e) ==
  \* a refined solution stays the solution until a global trial rewrites it: an observation, or a call that made no trial at all
  \* (Solve entered with the criterion already true), still shows the refined one
  LET refined == ((e.name = "solve" /\ scfg.refine) \/ e.name = "localref"
                  \/ ((e.name = "observe" \/ (e.name \in {"solve", "dgi"} /\ strials = scall0)) /\ sn.lastref)) /\ strials > 0
      g == Guarded(e)
      solveok == e.name = "solve" /\ ~sfault /\ ~g
      f == SnapAll(e.snap)
           \cup CountFails(e.sol)
           \cup BestFails(e.sol, IF e.name \in {"solve", "localref"} THEN e.bf ELSE "skip", refined)
           \cup (IF g /\ ~AtResolution THEN {"SpuriousGuard"} ELSE {})
           \cup (IF sfault \/ g \/ sn.lost = "unknown" THEN {} ELSE AccFails(e.sol))
           \cup (IF e.raised = "none" \/ (g /\ e.name # "solve") THEN {} ELSE {IF sfault THEN "FailContained" ELSE "SolveReturns"})
           \cup (IF e.name = "dgi" /\ ~sfault /\ ~g /\ strials - scall0 # e.k THEN {"DgiCount"} ELSE {})
           \cup (IF solveok /\ sn.lost # "unknown" /\ ~StopMaybe THEN {"StopEarly"} ELSE {})
           \cup (IF solveok /\ e.printed_exc THEN {"NoIntExc"} ELSE {})
           \cup (IF e.name = "solve" /\ e.raised = "none" /\ ~e.ret_is_results THEN {"SolveReturnsResults"} ELSE {})
           \cup (IF g THEN {} ELSE NotifRetFails(e)) \cup CertFails(e)
           \* the refined result is the best point the local method evaluated (Nelder-Mead returns its best vertex)
           \cup (IF e.name \in {"solve", "localref"} /\ refined /\ ~sfault /\ e.raised = "none" /\ sn.locmin # "none" /\ e.sol.has
                    /\ QLt(sn.locmin, e.sol.bv) THEN {"RefBestOfLocal"} ELSE {})
           \* the lists handed to OnEndIteration by earlier calls, read again after this call, still hold the trials of their own calls
           \cup (IF "kept_ok" \in DOMAIN e /\ ~e.kept_ok THEN {"NotifListKept"} ELSE {})
           \* an observation (GetResults only, possibly after other solvers acted) shows exactly what the last call left
           \cup (IF e.name = "observe" /\ sn.last # <<>> /\ e.sol # sn.last THEN {"ObservedUnchanged"} ELSE {})
  IN /\ Note(e, f)
     /\ spc' = "idle"
     /\ sn' = [sn EXCEPT !.last = e.sol, !.lost = IF Guarded(e) THEN "unknown" ELSE @, !.lastref = refined]
     /\ tstats' = [tstats EXCEPT !.cert = @ + (IF e.name = "solve" /\ ~sfault /\ HasLip /\ AccStop /\ Premise THEN 1 ELSE 0),
                                 !.accstops = @ + (IF e.name = "solve" /\ ~sfault /\ HasLip /\ AccStop THEN 1 ELSE 0)]
     /\ UNCHANGED <<scfg, spts, sM, sZ, sminD, strials, scall0, sfault, slocal>>

EvCb(e) ==
  /\ Note(e, IF e.kind = "enditer"
             THEN SnapAll(e.snap) \cup CountFails(e.sol) \cup BestFails(e.sol, "skip", FALSE)
                  \cup (IF sfault \/ sn.lost = "unknown" THEN {} ELSE AccFails(e.sol))
                  \cup (IF e.newx = sn.new THEN {} ELSE {"NotifNewPoints"})
                  \cup (IF spc \in {"dgi", "solve"} THEN {} ELSE {"NotifEndIterCount"})
             ELSE IF e.kind = "before"
             THEN (IF strials = 0 /\ (e.ncalc = 0 \/ Probing) /\ sn.before = 0 THEN {} ELSE {"NotifBefore"})
             ELSE IF e.kind = "stop"
             THEN (IF spc = "solve" THEN {} ELSE {"NotifStopCount"})

                  \cup (IF sfault \/ e.status = StopMaybe \/ e.status = StopDef THEN {} ELSE {"NotifStopStatus"})
             ELSE IF e.kind = "console"
             THEN (IF sn.last = <<>> THEN {"ConsoleReport"}
                   ELSE IF /\ e.gtr = sn.last.ntr /\ e.ltr = sn.last.nloc
                           /\ Len(e.point) = Len(sn.last.by)
                           /\ \A k \in 1..Len(e.point) : QClose(e.point[k], sn.last.by[k], QAdd(QMul(QFrac(1, 10000000), QAbs(sn.last.by[k])), QFrac(1, 100000000)))
                           /\ QClose(e.value, sn.last.bv, QFrac(6, 1000000000))
                           /\ (IF sn.last.acc \in {"inf", "-inf"} THEN e.acc = sn.last.acc
                               ELSE e.acc \notin {"inf", "-inf"} /\ QClose(e.acc, sn.last.acc, QFrac(6, 1000000000)))
                        THEN {} ELSE {"ConsoleReport"})
             ELSE {})
  /\ sn' = IF e.kind = "enditer" THEN [sn EXCEPT !.enditers = @ + 1, !.new = <<>>]
           ELSE IF e.kind = "before" THEN [sn EXCEPT !.before = @ + 1]
           ELSE IF e.kind = "stop" THEN [sn EXCEPT !.stops = @ + 1, !.stopsol = SolKey(e.sol)]
           ELSE sn
  /\ UNCHANGED <<scfg, spts, sM, sZ, sminD, strials, spc, scall0, sfault, slocal, tstats>>

(* events whose vectors do not have the dimension of the run they claim to belong to (e.g. notifications of  *)
(* another solver delivered to this run's listener) are not interpreted: clause Malformed                    *)
VecOK(v) == Len(v) = N
SolOK(sol) == Len(sol.by) \in {0, N}
SnapOK(snp) == "error" \in DOMAIN snp \/ \A k \in 1..Len(snp.items) : VecOK(snp.items[k].y)
WellFormed(e) ==
  CASE e.ev = "trial" -> scfg.n = N /\ VecOK(e.y) /\ VecOK(e.ylog) /\ VecOK(e.yafter)
    [] e.ev \in {"fail", "local"} -> scfg.n = N /\ VecOK(e.ylog)
    [] e.ev = "ret" -> scfg.n = N /\ SolOK(e.sol) /\ SnapOK(e.snap)
    [] e.ev = "cb" -> scfg.n = N /\ (IF "sol" \in DOMAIN e THEN SolOK(e.sol) ELSE TRUE) /\ (IF "snap" \in DOMAIN e THEN SnapOK(e.snap) ELSE TRUE)
    [] e.ev = "call" -> scfg.n = N
    [] e.ev = "malformed" -> FALSE       \* the recorder met a non-finite number where the solver must hold a finite one
    [] OTHER -> TRUE

Consume ==
  /\ tpos <= Len(Trace)
  /\ LET e == Trace[tpos] IN
       CASE ~WellFormed(e) -> Note(e, {"Malformed"}) /\ UNCHANGED <<scfg, spts, sM, sZ, sminD, strials, spc, scall0, sfault, slocal, tstats, sn>>
         [] e.ev = "init"  -> EvInit(e)
         [] e.ev = "setparams" -> EvSetParams(e)
         [] e.ev = "call"  -> EvCall(e)
         [] e.ev = "trial" -> EvTrial(e)
         [] e.ev = "fail"  -> EvFail(e)
         [] e.ev = "local" -> EvLocal(e)
         [] e.ev = "ret"   -> EvRet(e)
         [] e.ev = "cb"    -> EvCb(e)
  /\ tpos' = tpos + 1
  /\ UNCHANGED tdone

Finish ==
  /\ tpos = Len(Trace) + 1 /\ ~tdone
  /\ PrintT(<<"VERDICT", [events |-> Len(Trace), nfail |-> tnfail, failed |-> tfailed, stats |-> tstats]>>)
  /\ tdone' = TRUE
  /\ UNCHANGED <<tpos, tfailed, tnfail, tstats, scfg, spts, sM, sZ, sminD, strials, spc, scall0, sfault, slocal, sn>>

Next == Consume \/ Finish
Spec == Init /\ [][Next]_vars
=============================================================================
