---------------------------- MODULE EvolventQ ----------------------------
(* The evolvent as a map on exact rationals: digits of a curve coordinate,  *)
(* the grid cell they lead to (EvolventStep), the cell centre in an         *)
(* arbitrary box, and the clauses that C07/C08/C09/C20/C06 state about      *)
(* Evolvent.GetImage / GetInverseImage.  Used by the trace modules.         *)
EXTENDS EvolventStep, Q, SequencesExt, Functions

(* Digits of x in base 2^N, m of them.  x >= 1 is the curve end: the code   *)
(* sends it to the last subinterval (all digits 2^N - 1).                   *)
XDigits(x, m) ==
  LET F[k \in 0 .. m] ==          \* <<remaining fraction, digits so far>>
        IF k = 0 THEN <<x, <<>>>>
        ELSE LET p == F[k - 1]
                 t == QMul(p[1], QInt(NExp))
                 d == QFloorInt(t)
             IN <<QSub(t, QInt(d)), Append(p[2], d)>>
  IN F[m][2]

DigitsOfX(x, m) == IF QLeq(Q1, x) THEN [j \in 1..m |-> NExp - 1] ELSE XDigits(x, m)

(* value of a digit sequence as a rational in [0,1): left end of its subinterval *)
XOfDigits(ds) == QSum([k \in 1 .. Len(ds) |-> QMul(QInt(ds[k]), QPow2(-(N * k)))])

(* centre of grid cell c (integer coordinate, density m) on one axis of the box *)
Centre1(c, lo, up, m) == QAdd(lo, QMul(QSub(up, lo), QMul(QInt(2 * c + 1), QPow2(-(m + 1)))))
HalfCell1(lo, up, m)  == QMul(QSub(up, lo), QPow2(-(m + 1)))
Scale1(lo, up)        == QAdd(QAbs(lo), QAbs(up))
(* tolerance of the affine cube-to-box map: purely relative to the magnitude of the bounds (positive, since lo < up) - an absolute *)
(* term would swallow whole cells of a tiny box (sides 1e-9 with density 20)                                                    *)
ETol(scale)           == QMul(QPow2(-40), scale)

(* --- clauses; each returns the set of names of the clauses that FAIL ---- *)

(* GetImage, N >= 2: y is the centre of the cell of x's subinterval, inside the box *)
\* (operator arguments are evaluated once by TLC; LET bodies at every use)
ImageFailsC(c, y, lo, up, m) ==
    {"ImgCentre" : i \in {k \in 1..N : ~QClose(y[k], Centre1(c[k], lo[k], up[k], m), ETol(Scale1(lo[k], up[k])))}}
    \cup {"ImgInBox" : i \in {k \in 1..N : ~(QLeq(lo[k], y[k]) /\ QLeq(y[k], up[k]))}}

ImageFails(x, y, lo, up, m) == ImageFailsC(CellOf(DigitsOfX(x, m)), y, lo, up, m)

(* GetImage, N = 1: the affine map *)
Image1Fails(x, y, lo, up) ==
  LET want == QAdd(lo[1], QMul(x, QSub(up[1], lo[1]))) IN
    (IF QClose(y[1], want, ETol(Scale1(lo[1], up[1]))) THEN {} ELSE {"ImgAffine"})
    \cup (IF QLeq(QSub(lo[1], ETol(Scale1(lo[1], up[1]))), y[1]) /\ QLeq(y[1], QAdd(up[1], ETol(Scale1(lo[1], up[1]))))
          THEN {} ELSE {"ImgInBox"})

InvCellFails(c, y, lo, up, m) ==
      {"InvCell" : i \in {k \in 1..N :
           ~QClose(y[k], Centre1(c[k], lo[k], up[k], m),
                   QAdd(HalfCell1(lo[k], up[k], m), ETol(Scale1(lo[k], up[k]))))}}

(* GetInverseImage / GetPreimages, N >= 2: x is the left end of a subinterval *)
(* (on the grid, in [0,1)) whose cell contains y                              *)
InverseFails(y, x, lo, up, m) ==
  LET g == QMul(x, QPow2(N * m)) IN
    IF ~(QIsInt(g) /\ QLeq(Q0, x) /\ QLt(x, Q1)) THEN {"InvGrid"}
    ELSE InvCellFails(CellOf(DigitsOfX(x, m)), y, lo, up, m)

Inverse1Fails(y, x, lo, up) ==
  LET want == QDiv(QSub(y[1], lo[1]), QSub(up[1], lo[1])) IN
    \* the code centres y on the midpoint of the segment first: an ulp of the bounds' magnitude, divided by the width
    IF QClose(x, want, QAdd(QTol(QAdd(Q1, QAbs(want))), QMul(QPow2(-46), QDiv(Scale1(lo[1], up[1]), QSub(up[1], lo[1])))))
    THEN {} ELSE {"InvAffine"}

(* inverse(image(x)) is x rounded down to the subinterval grid; 1 -> last subinterval *)
RoundTripFails(x, x2, m) ==
  LET ds   == DigitsOfX(x, m)
      want == XOfDigits(ds) IN
    IF x2 = want THEN {} ELSE {"RoundTrip"}

(* Hoelder bound: ||y1-y2||_2 <= 2 sqrt(N+3) |x1-x2|^(1/N) maxside, for |x1-x2| >= 2^-(N m); *)
(* checked as  ||dy||^2 <= 4 (N+3) maxside^2 * hi^2  with hi >= |dx|^(1/N)                  *)
HoelderFails(x1, x2, y1, y2, lo, up, m) ==
  LET dx == QAbs(QSub(x1, x2)) IN
    IF QLt(dx, QPow2(-(N * m))) THEN {}
    ELSE LET d2   == QSum([k \in 1..N |-> QSq(QSub(y1[k], y2[k]))])
             side == FoldFunction(QMax, Q0, [k \in 1..N |-> QSub(up[k], lo[k])])
             hi   == QRootHi(dx, N)
             rhs  == QMul(QInt(4 * (N + 3)), QMul(QSq(side), QSq(hi)))
         IN IF QLeq(d2, QMul(rhs, QAdd(Q1, QPow2(-30)))) THEN {} ELSE {"Hoelder"}

(* two consecutive subintervals: centres differ in exactly one coordinate by one cell width *)
AdjacentFails(y1, y2, lo, up, m) ==
  LET far == {k \in 1..N : ~QClose(y1[k], y2[k], ETol(Scale1(lo[k], up[k])))} IN
    IF Cardinality(far) # 1 THEN {"AdjOneAxis"}
    ELSE LET k == CHOOSE k \in far : TRUE IN
      IF QClose(QAbs(QSub(y1[k], y2[k])), QMul(QSub(up[k], lo[k]), QPow2(-m)), ETol(Scale1(lo[k], up[k])))
      THEN {} ELSE {"AdjWidth"}

(* the density-(m+1) image lies inside the density-m cell of the same point *)
NestFails(yc, yf, lo, up, m) ==
  {"Nest" : i \in {k \in 1..N :
      ~QLeq(QAbs(QSub(yc[k], yf[k])), QAdd(HalfCell1(lo[k], up[k], m), ETol(Scale1(lo[k], up[k]))))}}

(* C20: y is a cell centre of the density-m grid of the box (and of no other density) *)
OnGridFails(y, lo, up, m) ==
  {"OnGrid" : i \in {k \in 1..N :
      LET t == QDiv(QMul(QSub(y[k], lo[k]), QPow2(m)), QSub(up[k], lo[k]))
          j == QFloor(t) IN
        ~( QLeq(Q0, j) /\ QLt(j, QPow2(m))
           /\ QClose(y[k], QAdd(lo[k], QMul(QSub(up[k], lo[k]), QMul(QAdd(QMul(Q2, j), Q1), QPow2(-(m + 1))))),
                     ETol(Scale1(lo[k], up[k]))) )}}
=============================================================================
