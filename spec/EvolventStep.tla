---------------------------- MODULE EvolventStep ----------------------------
(***************************************************************************)
(* The integer core of iOpt/evolvent/evolvent.py (Strongin's "mapd"        *)
(* evolvent), transcribed operator by operator.                            *)
(*                                                                         *)
(*   Node(d)            = __CalculateNode        digit -> [l, u, v]        *)
(*   Step(sig, d)       = one pass of the level loop of __GetYonX          *)
(*   Numbr(u)           = __CalculateNumbr       sign vector -> [d, l, v]  *)
(*   InvStep(sig, off)  = one pass of the level loop of __GetXonY          *)
(*                                                                         *)
(* N is the dimension (>= 2; for N = 1 the code uses the affine map and    *)
(* none of this).  Vectors are sequences indexed 1..N (code index i is     *)
(* i+1 here); the axis numbers l and it stay 0-based as in the code.       *)
(* An orientation state is sig = <<it, iw>>, iw \in {-1,1}^N: everything   *)
(* the level loop carries from one level to the next.                      *)
(***************************************************************************)
EXTENDS Integers, Sequences, FiniteSets

CONSTANT N
ASSUME N \in 1..6   \* the automaton operators are only used for N >= 2

NExp   == 2 ^ N                 \* nexpExtended
Digits == 0 .. (NExp - 1)
Signs  == {-1, 1}
Vecs   == [1..N -> Signs]
Ones   == [i \in 1..N |-> 1]
Sigma0 == <<0, Ones>>           \* it = 0, iw = (1,..,1) at the top of both loops

Swap(v, i, j) == [k \in 1..N |-> IF k = i THEN v[j] ELSE IF k = j THEN v[i] ELSE v[k]]

(* the "l = it / l = 0" exchange that follows the swaps in both loops *)
AxisAdj(l, it) == IF l = 0 THEN it ELSE IF l = it THEN 0 ELSE l

---------------------------------------------------------------------------
(* __CalculateNode.  NodeLoop[i] is the state after i passes of its for    *)
(* loop: remaining iis, k1, l, iq and the common prefix of u and v.        *)
NodeLoop(d) ==
  LET F[i \in 0..N] ==
        IF i = 0 THEN [iis |-> d, k1 |-> -1, l |-> 0, iq |-> 1, u |-> <<>>]
        ELSE LET s   == F[i - 1]
                 iff == 2 ^ (N - i)              \* NExp halved i times
                 ci  == i - 1                    \* the code's loop index
                 ge  == s.iis >= iff
                 hit == IF ge THEN (s.iis = iff /\ s.iis # 1)
                              ELSE (s.iis = iff - 1 /\ s.iis # 0)
                 k2  == IF ge THEN 1 ELSE -1
                 j   == -(s.k1) * k2
             IN [iis |-> IF ge THEN s.iis - iff ELSE s.iis,
                 k1  |-> k2,
                 l   |-> IF hit THEN ci ELSE s.l,
                 iq  |-> IF hit THEN (IF ge THEN -1 ELSE 1) ELSE s.iq,
                 u   |-> Append(s.u, j)]
  IN F[N]

Node(d) ==
  IF d = 0 THEN [l |-> N - 1, u |-> [i \in 1..N |-> -1], v |-> [i \in 1..N |-> -1]]
  ELSE IF d = NExp - 1 THEN
       [l |-> N - 1,
        u |-> [i \in 1..N |-> IF i = 1 THEN 1 ELSE -1],
        v |-> [i \in 1..N |-> IF i = 1 \/ i = N THEN 1 ELSE -1]]
  ELSE LET s  == NodeLoop(d)
           v1 == [i \in 1..N |-> IF i = s.l + 1 THEN s.u[i] * s.iq ELSE s.u[i]]
           v2 == [i \in 1..N |-> IF i = N THEN -v1[i] ELSE v1[i]]
       IN [l |-> s.l, u |-> [i \in 1..N |-> s.u[i]], v |-> v2]

(* One level of __GetYonX: from orientation sig and digit d to the next    *)
(* orientation and the offset vector off (the level adds r*off to y).      *)
Step(sig, d) ==
  LET it == sig[1]
      iw == sig[2]
      nd == Node(d)
      iu == Swap(nd.u, 1, it + 1)
      iv == Swap(nd.v, 1, it + 1)
  IN [sig |-> <<AxisAdj(nd.l, it), [i \in 1..N |-> iw[i] * (-iv[i])]>>,
      off |-> [i \in 1..N |-> iu[i] * iw[i]]]

---------------------------------------------------------------------------
(* __CalculateNumbr *)
NumbrLoop(u) ==
  LET F[i \in 0..N] ==
        IF i = 0 THEN [k1 |-> -1, l1 |-> 0, l |-> 0, iis |-> 0]
        ELSE LET s   == F[i - 1]
                 iff == 2 ^ (N - i)
                 ci  == i - 1
                 k2  == -(s.k1) * u[i]
             IN [k1  |-> k2,
                 l1  |-> IF k2 < 0 THEN ci ELSE s.l1,
                 l   |-> IF k2 < 0 THEN s.l ELSE ci,
                 iis |-> IF k2 < 0 THEN s.iis ELSE s.iis + iff]
  IN F[N]

Numbr(u) ==
  LET s == NumbrLoop(u)
      flipLast(v) == [i \in 1..N |-> IF i = N THEN -v[i] ELSE v[i]]
  IN IF s.iis = 0 THEN [d |-> 0, l |-> N - 1, v |-> u]
     ELSE IF s.iis = NExp - 1 THEN [d |-> s.iis, l |-> N - 1, v |-> flipLast(u)]
     ELSE IF s.l1 = N - 1
          THEN [d |-> s.iis, l |-> s.l,
                v |-> LET w == flipLast(u) IN [i \in 1..N |-> IF i = s.l + 1 THEN -w[i] ELSE w[i]]]
          ELSE [d |-> s.iis, l |-> s.l1, v |-> flipLast(u)]

(* One level of __GetXonY: sgn is the vector of signs of the residual y    *)
(* (the code's u before it is multiplied by w).                            *)
InvStep(sig, sgn) ==
  LET it == sig[1]
      w  == sig[2]
      u0 == [i \in 1..N |-> sgn[i] * w[i]]
      u  == Swap(u0, 1, it + 1)
      nb == Numbr(u)
      v  == Swap(nb.v, 1, it + 1)
  IN [d |-> nb.d, sig |-> <<AxisAdj(nb.l, it), [i \in 1..N |-> w[i] * (-v[i])]>>]

---------------------------------------------------------------------------
(* Orientation states reachable from Sigma0 (a constant: TLC evaluates it  *)
(* once), and the transition table on them.                                *)
(* No RECURSIVE operators here: TLC caches a zero-arity definition only if  *)
(* SANY can see it is constant-level, which it cannot for recursive         *)
(* operators; recursive FUNCTIONS are fine.                                 *)
Grow(S) == S \cup {Step(s, d).sig : s \in S, d \in Digits}
Reach   == LET F[k \in 0 .. 2 * N] == IF k = 0 THEN {Sigma0} ELSE Grow(F[k - 1]) IN F[2 * N]
ASSUME ReachClosed == N >= 2 => Grow(Reach) = Reach
StepTab == [s \in Reach |-> [d \in Digits |-> Step(s, d)]]

(* Descent along a digit sequence ds: <<sig, cell>> where cell[i] is the   *)
(* integer coordinate (0 .. 2^Len(ds)-1) of the grid cell on axis i.  The  *)
(* code accumulates y = Sum_j 2^-(j+1) off_j in [-1/2,1/2]; in cell units  *)
(* a level maps c to 2c + (off+1)/2.                                       *)
Descend(ds) ==
  LET F[k \in 0 .. Len(ds)] ==
        IF k = 0 THEN <<Sigma0, [i \in 1..N |-> 0]>>
        ELSE LET p  == F[k - 1]
                 st == StepTab[p[1]][ds[k]]
             IN <<st.sig, [i \in 1..N |-> 2 * p[2][i] + (st.off[i] + 1) \div 2]>>
  IN F[Len(ds)]

CellOf(ds) == Descend(ds)[2]

(* Inverse descent: from a cell (integer coordinates at density m) to the  *)
(* digit sequence, reading the bits of the coordinates from the top.       *)
DigitsOf(cell, m) ==
  LET F[k \in 0 .. m] ==
        IF k = 0 THEN <<Sigma0, <<>>>>
        ELSE LET p   == F[k - 1]
                 sgn == [i \in 1..N |-> IF (cell[i] \div (2 ^ (m - k))) % 2 = 1 THEN 1 ELSE -1]
                 st  == InvStep(p[1], sgn)
             IN <<st.sig, Append(p[2], st.d)>>
  IN F[m][2]
=============================================================================
