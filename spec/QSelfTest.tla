---------------------------- MODULE QSelfTest ----------------------------
(* Cross-check of the Java kernel behind Q.tla against definitions written  *)
(* over TLC's own integers (small operands), plus algebraic laws and root   *)
(* enclosures on large operands.  Evaluated by TLC as ASSUMEs (no behaviour *)
(* spec).                                                                  *)
EXTENDS Q, TLC, FiniteSets

Ns == -9..9
Ds == 1..9

Pow(a, k) == IF k = 0 THEN 1 ELSE IF k = 1 THEN a ELSE IF k = 2 THEN a*a ELSE a*a*a

ASSUME Canon ==
  \A a \in Ns, b \in Ds, c \in Ns, d \in Ds :
     (QFrac(a, b) = QFrac(c, d)) <=> (a * d = c * b)

ASSUME Arith ==
  \A a \in Ns, b \in Ds, c \in Ns, d \in Ds :
     LET x == QFrac(a, b)  y == QFrac(c, d) IN
       /\ QAdd(x, y) = QFrac(a * d + c * b, b * d)
       /\ QSub(x, y) = QFrac(a * d - c * b, b * d)
       /\ QMul(x, y) = QFrac(a * c, b * d)
       /\ (c # 0 => QDiv(x, y) = QFrac(a * d, b * c))
       /\ (c # 0 => QDivR(x, y) = QDiv(x, y) \/
                    QLeq(QAbs(QSub(QDivR(x, y), QDiv(x, y))), QMul(QPow2(-128), QAbs(QDiv(x, y)))))
       /\ (QLt(x, y) <=> a * d < c * b)
       /\ (QLeq(x, y) <=> a * d <= c * b)
       /\ QCmp(x, y) = (IF a * d < c * b THEN -1 ELSE IF a * d = c * b THEN 0 ELSE 1)
       /\ QMin(x, y) = (IF a * d <= c * b THEN x ELSE y)
       /\ QMax(x, y) = (IF a * d >= c * b THEN x ELSE y)

ASSUME Unary ==
  \A a \in Ns, b \in Ds :
     LET x == QFrac(a, b) IN
       /\ QNeg(x) = QFrac(-a, b)
       /\ QAbs(x) = QFrac(IF a < 0 THEN -a ELSE a, b)
       /\ QSign(x) = (IF a < 0 THEN -1 ELSE IF a = 0 THEN 0 ELSE 1)
       /\ QFloorInt(x) = a \div b
       /\ QFloor(x) = QInt(a \div b)
       /\ (QIsInt(x) <=> a % b = 0)
       /\ \A k \in 0..3 : QPowN(x, k) = QFrac(Pow(a, k), Pow(b, k))
       /\ (a # 0 => QPowN(x, -2) = QFrac(b * b, a * a))
       /\ QFrac(a, -b) = QFrac(-a, b)

ASSUME Pow2 ==
  \A k \in 0..20 : /\ QPow2(k) = QInt(2^k)
                   /\ QPow2(-k) = QFrac(1, 2^k)
                   /\ QMul(QPow2(k), QPow2(-k)) = Q1

ASSUME Doubles ==
  /\ QDbl("0x1.8p+1") = QInt(3)
  /\ QDbl("-0x1.0p-3") = QFrac(-1, 8)
  /\ QDbl("0x0.0p+0") = Q0
  /\ QDbl("-0x0.0p+0") = Q0
  /\ QDbl("0x1.0000000000000p+0") = Q1
  /\ QDbl("0x1.999999999999ap-4") = "ccccccccccccd/80000000000000"
  /\ QDbl("0x1.fffffffffffffp+1023") = QSub(QPow2(1024), QPow2(971))
  /\ QDbl("0x0.0000000000001p-1022") = QPow2(-1074)

Big(a, b, k) == QPowN(QFrac(a, b), k)

ASSUME Laws ==
  \A a \in {-7, 3, 5}, b \in {2, 3, 9}, k \in {17, 40}, c \in {-5, 11}, d \in {4, 7} :
     LET x == Big(a, b, k)  y == Big(c, d, k + 3)  z == QFrac(c, d) IN
       /\ QSub(QAdd(x, y), y) = x
       /\ QDiv(QMul(x, y), y) = x
       /\ QMul(z, QAdd(x, y)) = QAdd(QMul(z, x), QMul(z, y))
       /\ QAdd(x, y) = QAdd(y, x)
       /\ (QLt(x, y) \/ QLt(y, x) \/ x = y)
       /\ QSum(<<x, y, z, QNeg(y)>>) = QAdd(x, z)
       /\ QLeq(QAbs(QSub(QDivR(x, y), QDiv(x, y))), QMul(QPow2(-128), QAbs(QDiv(x, y))))

ASSUME Roots ==
  \A a \in 0..9, b \in Ds, n \in 1..5, k \in {1, 13} :
     LET q  == QPowN(QFrac(a, b), k)
         lo == QRootLo(q, n)
         hi == QRootHi(q, n) IN
       /\ QLeq(QPowN(lo, n), q)
       /\ QLeq(q, QPowN(hi, n))
       /\ QLeq(lo, hi)
       /\ QLeq(QSub(hi, lo), QMax(QMul(QPow2(-70), hi), QPow2(-200)))

ASSUME ExactRoots ==
  \A a \in 0..9, b \in Ds, n \in 1..5 :
     LET r == QFrac(a, 2^b) IN
       /\ QRootLo(QPowN(r, n), n) = r
       /\ QRootHi(QPowN(r, n), n) = r

ASSUME Done == PrintT(<<"QSelfTest", "ok">>)
=============================================================================
