---------------------------- MODULE EvolventMC ----------------------------
(* The full descent for a concrete dimension N and density M: every digit   *)
(* string of length M is followed level by level (one state per prefix).    *)
(* A guard against an error in the induction argument behind EvolventAuto:  *)
(* bijectivity and both round trips are checked outright on all 2^(N*M)     *)
(* subintervals, and the Hoelder inequality on all pairs of them.           *)
EXTENDS EvolventStep, Q, TLC, Functions

CONSTANT M
\* (names chosen not to collide with parameter names of EvolventStep's operators:
\*  a collision silently disables TLC's caching of the constant tables)
VARIABLES vds, vsig, vcell
vars == <<vds, vsig, vcell>>

Init == vds = <<>> /\ vsig = Sigma0 /\ vcell = [i \in 1..N |-> 0]

Next == /\ Len(vds) < M
        /\ \E d \in Digits :
             LET st == Step(vsig, d) IN
               /\ vds' = Append(vds, d)
               /\ vsig' = st.sig
               /\ vcell' = [i \in 1..N |-> 2 * vcell[i] + (st.off[i] + 1) \div 2]

Spec == Init /\ [][Next]_vars

(* every prefix stays in the grid of its level and its orientation is in Reach *)
InGrid == /\ \A i \in 1..N : vcell[i] \in 0 .. (2 ^ Len(vds) - 1)
          /\ vsig \in Reach

(* the incremental state agrees with the closed-form operators used by the trace modules *)
Agrees == vcell = CellOf(vds)

(* C09 (and injectivity for C07): the inverse descent reads back exactly the digit string *)
RoundTrip == DigitsOf(vcell, Len(vds)) = vds

---------------------------------------------------------------------------
(* Constant-level checks over all complete strings (an invariant that is     *)
(* non-trivial only in the initial state, when the configuration sets CheckPairs). *)
CONSTANT CheckPairs

StrOf(i)  == [k \in 1..M |-> (i \div (NExp ^ (M - k))) % NExp]   \* digit string of subinterval i
ByIndex   == IF CheckPairs THEN [i \in 0 .. (NExp ^ M - 1) |-> CellOf(StrOf(i))] ELSE <<>>    \* constant: evaluated once

(* C07: the cells of all strings are pairwise distinct and fill the grid *)
Bijective == CheckPairs => Cardinality({ByIndex[i] : i \in DOMAIN ByIndex}) = NExp ^ M

(* C08: consecutive subintervals are face-adjacent *)
Consecutive == CheckPairs =>
  \A i \in 0 .. (NExp ^ M - 2) :
     LET c1 == ByIndex[i]  c2 == ByIndex[i + 1] IN
       /\ Cardinality({k \in 1..N : c1[k] # c2[k]}) = 1
       /\ \A k \in 1..N : c1[k] - c2[k] \in {-1, 0, 1}

(* C08: for ANY points x' in subinterval i, x'' in subinterval j with |x'-x''| >= 2^-(N M):    *)
(* |x'-x''| > (|i-j|-1) 2^-(N M), so it suffices that                                          *)
(*   ||c_i - c_j||^(2N) <= (4(N+3))^N * max(|i-j|-1, 1)^2      (cell units)                      *)
\* (TLC evaluates constant-level definitions eagerly at start-up: without the guard the quadratic pair check would run - for
\*  minutes or hours - even in configurations that do not ask for it)
Hoelder == CheckPairs =>
  \A i \in 0 .. (NExp ^ M - 1) : \A j \in (i + 1) .. (NExp ^ M - 1) :
     LET c1 == ByIndex[i]  c2 == ByIndex[j]
         d2 == FoldFunction(+, 0, [k \in 1..N |-> (c1[k] - c2[k]) * (c1[k] - c2[k])])
         g  == IF j - i - 1 >= 1 THEN j - i - 1 ELSE 1
     IN QLeq(QPowN(QInt(d2), N), QMul(QPowN(QInt(4 * (N + 3)), N), QSq(QInt(g))))

(* evaluated once, in the initial state (after TLC has cached the constant tables) *)
PairsOK == (CheckPairs /\ vds = <<>>) =>
              /\ Bijective
              /\ Consecutive
              /\ Hoelder
              /\ PrintT(<<"EvolventMC", "pairs", N, M, ((NExp ^ M) * (NExp ^ M - 1)) \div 2>>)
=============================================================================
