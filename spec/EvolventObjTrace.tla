-------------------------- MODULE EvolventObjTrace --------------------------
(***************************************************************************)
(* Trace validation for C17 (evolvent queries are pure).  The real object  *)
(* is driven along the call histories that TLC enumerates from             *)
(* EvolventObj.tla (and along random ones); the recorder logs, for every   *)
(* call, the configuration, the argument before and after, the result, the *)
(* identity (a small ordinal) of every array involved, and the CURRENT     *)
(* contents of every array the user still holds.                           *)
(*                                                                         *)
(* The specification is the memo-table reading of "pure": a result is a    *)
(* function of (N, m, bounds, argument) only - across calls, across        *)
(* SetBounds, and across objects - compared bit for bit; handed-out arrays *)
(* never change and are never handed out twice; arguments are not modified.*)
(*   op = "reset"                       start of a history (drops thanded) *)
(*   op = "new" | "setbounds"           n m lo up                           *)
(*   op = "image"                       n m lo up x rid val live           *)
(*   op = "inverse" | "preimages"       n m lo up aid before after x live  *)
(***************************************************************************)
EXTENDS Integers, Sequences, FiniteSets, TLC, Json, IOUtils

Trace == ndJsonDeserialize(IOEnv.TRACE_FILE)

VARIABLES tpos, tmemoI, tmemoV, thanded, tfailed, tnfail, tdone
vars == <<tpos, tmemoI, tmemoV, thanded, tfailed, tnfail, tdone>>

Empty == [k \in {} |-> 0]
Key(e, arg) == <<e.n, e.m, e.lo, e.up, arg>>

LiveFails(e) ==
  {"HandedUnchanged" : i \in {k \in 1..Len(e.live) :
       e.live[k].id \in DOMAIN thanded /\ thanded[e.live[k].id] # e.live[k].val}}

Fails(e) ==
  CASE e.op = "image" ->
         (IF Key(e, e.x) \in DOMAIN tmemoI /\ tmemoI[Key(e, e.x)] # e.val THEN {"ImgPure"} ELSE {})
         \cup (IF e.rid \in DOMAIN thanded THEN {"FreshResult"} ELSE {})
         \cup LiveFails(e)
    [] e.op \in {"inverse", "preimages"} ->
         (IF Key(e, e.before) \in DOMAIN tmemoV /\ tmemoV[Key(e, e.before)] # e.x THEN {"InvPure"} ELSE {})
         \cup (IF e.before # e.after THEN {"ArgUnchanged"} ELSE {})
         \cup LiveFails(e)
    [] e.op = "raises" -> {"QueryRaises"}     \* a query inside the documented domain (float64 array argument) raised
    [] OTHER -> {}

Init == /\ tpos = 1 /\ tmemoI = Empty /\ tmemoV = Empty /\ thanded = Empty
        /\ tfailed = {} /\ tnfail = 0 /\ tdone = FALSE

Consume ==
  /\ tpos <= Len(Trace)
  /\ LET e == Trace[tpos] IN
       /\ \E f \in {Fails(e)} :
            /\ tfailed' = IF Cardinality(tfailed) < 20 THEN tfailed \cup {<<e.id, c>> : c \in f} ELSE tfailed
            /\ tnfail' = tnfail + (IF f = {} THEN 0 ELSE 1)
       /\ tmemoI' = IF e.op = "image" /\ Key(e, e.x) \notin DOMAIN tmemoI
                    THEN tmemoI @@ (Key(e, e.x) :> e.val) ELSE tmemoI
       /\ tmemoV' = IF e.op \in {"inverse", "preimages"} /\ Key(e, e.before) \notin DOMAIN tmemoV
                    THEN tmemoV @@ (Key(e, e.before) :> e.x) ELSE tmemoV
       /\ thanded' = CASE e.op = "reset" -> Empty
                       [] e.op = "image" /\ e.rid \notin DOMAIN thanded -> thanded @@ (e.rid :> e.val)
                       [] e.op \in {"inverse", "preimages"} /\ e.aid # 0 /\ e.aid \notin DOMAIN thanded
                            -> thanded @@ (e.aid :> e.before)
                       [] OTHER -> thanded
  /\ tpos' = tpos + 1
  /\ UNCHANGED tdone

Finish ==
  /\ tpos = Len(Trace) + 1 /\ ~tdone
  /\ PrintT(<<"VERDICT", [events |-> Len(Trace), nfail |-> tnfail, failed |-> tfailed,
                         keys |-> Cardinality(DOMAIN tmemoI) + Cardinality(DOMAIN tmemoV)]>>)
  /\ tdone' = TRUE
  /\ UNCHANGED <<tpos, tmemoI, tmemoV, thanded, tfailed, tnfail>>

Next == Consume \/ Finish
Spec == Init /\ [][Next]_vars
=============================================================================
