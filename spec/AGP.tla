-------------------------------- MODULE AGP --------------------------------
(***************************************************************************)
(* Design model of one iOpt Solver (AGPStep) closed with its environment:  *)
(*                                                                         *)
(*  - the USER issues any sequence of public calls DoGlobalIteration(k),   *)
(*    Solve (bounded by MaxCalls / MaxBatch);                              *)
(*  - the OBJECTIVE returns, at every (adaptively chosen) trial point, any *)
(*    value of the finite set Vals - TLC therefore visits every objective  *)
(*    with values in Vals, not a sample - and, if Faults, may raise at any *)
(*    evaluation;                                                          *)
(*  - the DEPQ returns any entry with maximal key (ties unspecified).      *)
(*                                                                         *)
(* Checked: the invariants below in every reachable state (C02, C03, C04,  *)
(* C06, C13, C16 at design level) and termination of Solve (C03).          *)
(* The same AGPCore operators are used by AGPTrace.tla, which validates    *)
(* recorded runs of the real solver step by step.                          *)
(***************************************************************************)
EXTENDS AGPStep

CONSTANTS Vals,      \* finite set of objective values (Q strings)
          Faults,    \* BOOLEAN: the objective may raise
          MaxCalls,  \* bound on the number of public calls
          MaxBatch,  \* largest k of DoGlobalIteration(k)
          MaxTrials  \* state constraint for DoGlobalIteration (which ignores itersLimit)

VARIABLES s,         \* the solver (AGPStep record)
          calls      \* public calls issued so far: <<"dgi", k>> / <<"solve">>
vars == <<s, calls>>

Init == s = InitSolver /\ calls = <<>>

UserDGI(k) == /\ s.pc = "idle" /\ Len(calls) < MaxCalls
              /\ s' = CallDGI(s, k) /\ calls' = Append(calls, <<"dgi", k>>)
UserSolve  == /\ s.pc = "idle" /\ Len(calls) < MaxCalls
              /\ s' = CallSolve(s) /\ calls' = Append(calls, <<"solve">>)

SolveLoop  == /\ s.pc = "solve" /\ ~Stop(s) /\ s' = SolveIterate(s) /\ UNCHANGED calls
SolveStop  == /\ s.pc = "solve" /\ Stop(s)  /\ s' = SolveEnd(s) /\ UNCHANGED calls
SolveTail  == /\ s.pc = "solvetail"         /\ s' = SolveEnd(s) /\ UNCHANGED calls

Begin      == /\ s.pc = "dgi" /\ s.left > 0
              /\ IF s.first THEN s' = BeginFirst(s)
                 ELSE \E s1 \in {Refilled(Recalced(s))} : \E e \in MaxEntries(s1.queue) : s' = BeginIter(s1, e)
              /\ UNCHANGED calls
ObjReturns == /\ s.pc = "eval" /\ \E z \in Vals : s' = Eval(s, z) /\ UNCHANGED calls
ObjRaises  == /\ s.pc = "eval" /\ Faults /\ s' = Raise(s) /\ UNCHANGED calls
EndCall    == /\ s.pc = "dgi" /\ s.left = 0 /\ s' = EndDGI(s) /\ UNCHANGED calls

Next == (\E k \in 1..MaxBatch : UserDGI(k)) \/ UserSolve \/ SolveLoop \/ SolveStop \/ SolveTail
        \/ Begin \/ ObjReturns \/ ObjRaises \/ EndCall

Spec == Init /\ [][Next]_vars /\ WF_vars(SolveLoop \/ SolveStop \/ SolveTail \/ Begin \/ ObjReturns \/ EndCall)

Bound == s.trials <= MaxTrials /\ Len(s.evals) <= MaxTrials + 2

---------------------------------------------------------------------------
Evaluated == {i \in 1..Len(s.pts) : IsEval(s.pts[i])}
AtHead == s.pc \in {"idle", "dgi", "solve", "solvetail"}

(* C06: the record is ordered, complete, with exact interval lengths; end points never evaluated *)
RecordOK ==
  IF s.trials = 0 THEN s.pts = <<>>
  ELSE /\ Len(s.pts) = s.trials + 2
       /\ s.pts[1].x = Q0 /\ s.pts[Len(s.pts)].x = Q1
       /\ ~IsEval(s.pts[1]) /\ ~IsEval(s.pts[Len(s.pts)])
       /\ \A i \in 2..Len(s.pts) : QLt(s.pts[i - 1].x, s.pts[i].x) /\ s.pts[i].d = Delta(s.pts[i - 1].x, s.pts[i].x)
       /\ \A i \in 2..(Len(s.pts) - 1) : IsEval(s.pts[i])
       /\ {s.pts[i].x : i \in Evaluated} = {e[1] : e \in {f \in {s.evals[j] : j \in 1..Len(s.evals)} : f[2]}}

(* C04: the reported best is an evaluated trial with the smallest value (the earliest among equals) *)
BestOK ==
  IF s.trials = 0 THEN s.best = None /\ s.Zb = None
  ELSE /\ \E i \in Evaluated : s.pts[i].x = s.best /\ s.pts[i].z = s.Zb
       /\ \A i \in Evaluated : QLeq(s.Zb, s.pts[i].z)

(* C02: M is at least 1 and dominates the slope of every pair of evaluated neighbours *)
MOK == /\ QLeq(Q1, s.M)
       /\ \A i \in 2..Len(s.pts) : (IsEval(s.pts[i - 1]) /\ IsEval(s.pts[i]))
                                     => QLeq(Slope(s.pts[i - 1].z, s.pts[i].z, s.pts[i].d), s.M)

(* the protocol behind C02: whenever the recalc flag is down, every stored characteristic is the one  *)
(* the current estimates give, and (absent a failed evaluation) the queue holds exactly one entry per *)
(* interval with that key - so popping the queue IS taking the arg-max over all intervals            *)
CharCur(i) == Char(s.pts[i - 1].z, s.pts[i].z, s.pts[i].d, QMul(Rr, s.M), s.Zb)
FlagOK == (AtHead /\ ~s.recalc /\ s.trials > 0) => \A i \in 2..Len(s.pts) : s.pts[i].R = CharCur(i)
QueueOK == (AtHead /\ ~s.recalc /\ s.trials > 0 /\ ~s.broken)
             => s.queue \ {<<Q0, "-inf">>} = {<<s.pts[i].x, s.pts[i].R>> : i \in 2..Len(s.pts)}

(* C02: the interval taken for the next trial has maximal characteristic w.r.t. the CURRENT estimates, *)
(* recomputed here from scratch; the new point is strictly inside it and is not an existing point     *)
ChosenOK ==
  (s.pc = "eval" /\ s.t > 0 /\ ~s.broken) =>
     /\ \A i \in 2..Len(s.pts) : QLeq(CharCur(i), CharCur(s.t))
     /\ QLt(s.pts[s.t - 1].x, s.nx) /\ QLt(s.nx, s.pts[s.t].x)
InsideOK == (s.pc = "eval" /\ s.t > 0) => QLt(s.pts[s.t - 1].x, s.nx) /\ QLt(s.nx, s.pts[s.t].x)
FirstOK == (Len(s.evals) > 0) => s.evals[1][1] = QHalf
NoRepeat == \A i, j \in 1..Len(s.evals) : (i < j /\ s.evals[i][2]) => s.evals[i][1] # s.evals[j][1]

(* C03: counters, budget, accuracy *)
Successes == Cardinality({j \in 1..Len(s.evals) : s.evals[j][2]})
CountOK == s.trials = Successes
AccOK == s.minD = (IF s.cds = <<>> THEN "inf"
                   ELSE CHOOSE d \in {s.cds[j] : j \in 1..Len(s.cds)} : \A j \in 1..Len(s.cds) : QLeq(d, s.cds[j]))
(* an evaluation is started inside Solve only while the stop criterion is false *)
NoLateIter == (s.pc = "eval" /\ s.insolve) => (s.iters - (IF s.first THEN 1 ELSE 0) < Limit)
(* Solve's final notification carries the stop status: true unless a failure ended the loop *)
StopNotifOK == \A j \in 1..Len(s.notif) : s.notif[j][1] = "stop" => (s.notif[j][4] \/ s.notif[j][5])

(* C13: notification protocol as seen by a listener attached from the start *)
Kind(j) == s.notif[j][1]
NKind(k) == Cardinality({j \in 1..Len(s.notif) : Kind(j) = k})
NoFailedEval == \A j \in 1..Len(s.evals) : s.evals[j][2]
SolveCallsDone == Cardinality({j \in 1..Len(calls) : calls[j] = <<"solve">>})
                  - (IF calls # <<>> /\ calls[Len(calls)] = <<"solve">> /\ s.pc # "idle" THEN 1 ELSE 0)
NotifOK ==
  \* told once before the first trial (again only if every evaluation so far failed)
  /\ \A j \in 1..Len(s.notif) : Kind(j) = "before" => \A k \in 1..s.notif[j][2] : ~s.evals[k][2]
  /\ (NoFailedEval => NKind("before") = (IF Len(s.evals) > 0 \/ s.pc = "eval" THEN 1 ELSE 0))
  \* once per Solve, when it ends
  /\ NKind("stop") = SolveCallsDone
  \* the solution passed to the last notification is the current one
  /\ (s.notif # <<>> /\ s.pc = "idle" /\ Kind(Len(s.notif)) = "enditer" /\ ~s.fault) => s.notif[Len(s.notif)][3] = s.best

(* the concatenation of all enditer notifications is exactly the sequence of successful trials of *)
(* completed calls, in order                                                                      *)
RECURSIVE Flat(_)
Flat(q) == IF q = <<>> THEN <<>> ELSE (IF Head(q)[1] = "enditer" THEN Head(q)[2] ELSE <<>>) \o Flat(Tail(q))
SuccSeq == LET idx == {j \in 1..Len(s.evals) : s.evals[j][2]}
               F[k \in 0..Len(s.evals)] == IF k = 0 THEN <<>> ELSE IF s.evals[k][2] THEN Append(F[k - 1], s.evals[k][1]) ELSE F[k - 1]
           IN F[Len(s.evals)]
IsPrefix(a, b) == Len(a) <= Len(b) /\ SubSeq(b, 1, Len(a)) = a
(* (a DoGlobalIteration(k > 1) call that a failing objective aborts never notifies: its completed trials are  *)
(* not reported to listeners - that is what the code does, and C13 speaks of calls that return)            *)
NotifTrialsOK == NoFailedEval =>
                   /\ IsPrefix(Flat(s.notif), SuccSeq)
                   /\ (s.pc = "idle" => Flat(s.notif) = SuccSeq)

(* C03 liveness: every Solve returns *)
SolveReturns == (s.pc = "solve") ~> (s.pc = "idle")

(* action properties *)
MMonotone == [][QLeq(s.M, s'.M)]_vars
TrialsMonotone == [][s'.trials >= s.trials /\ s'.trials <= s.trials + 1]_vars
(* a finished solver (stop criterion true, no call in progress) makes no further trial in Solve *)
SolveOnFinished == [][(s.pc = "solve" /\ Stop(s)) => s'.pc = "idle" /\ s'.trials = s.trials]_vars

(* spec -> code replay: every behaviour that ends a DoGlobalIteration(MaxTrials) call is printed as the sequence of objective *)
(* values the environment chose and the trial coordinates the model made; the harness feeds the values to the real solver  *)
(* (objective = "return the k-th value") and requires its trial sequence to be one of the model's for that value sequence   *)
EmitBehaviour == (s.pc = "idle" /\ s.trials = MaxTrials /\ Len(calls) = 1)
                   => PrintT(<<"BEH", [j \in 1..Len(s.pts) - 2 |-> 0], [j \in 1..Len(s.evals) |-> s.evals[j][1]],
                                     [j \in 1..Len(s.evals) |-> LET x == s.evals[j][1] IN s.pts[IndexOfX(s.pts, x)].z]>>)

(* scenario generation: print the call history at every state where the user may stop (used by the harness) *)
EmitCalls == (s.pc = "idle" /\ calls # <<>>) => PrintT(<<"CALLS", calls>>)
=============================================================================
