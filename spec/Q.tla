------------------------------- MODULE Q -------------------------------
(***************************************************************************)
(* Exact rational numbers for TLC.                                         *)
(*                                                                         *)
(* A rational is a string in canonical form (radix 16, "n" or "n/d",       *)
(* gcd(n,d)=1, d>1), so TLA+ equality is rational equality.  The operators *)
(* are implemented by the Java module override kernel/iopt/verif/QKernel   *)
(* (BigInteger); the bodies below are placeholders that TLC never          *)
(* evaluates.  QSelfTest.tla cross-checks the kernel against definitions   *)
(* over TLC's own integers.  Nothing in this module is specific to iOpt.   *)
(***************************************************************************)
EXTENDS Integers, Sequences

QInt(i)      == CHOOSE v \in STRING : TRUE   \* integer i
QFrac(n, d)  == CHOOSE v \in STRING : TRUE   \* n/d, d # 0
QDbl(s)      == CHOOSE v \in STRING : TRUE   \* exact value of a hex-float literal "0x1.8p+1"
QAdd(x, y)   == CHOOSE v \in STRING : TRUE
QSub(x, y)   == CHOOSE v \in STRING : TRUE
QMul(x, y)   == CHOOSE v \in STRING : TRUE
QDiv(x, y)   == CHOOSE v \in STRING : TRUE   \* exact
QDivR(x, y)  == CHOOSE v \in STRING : TRUE   \* truncated to a dyadic, relative error <= 2^-128
QNeg(x)      == CHOOSE v \in STRING : TRUE
QAbs(x)      == CHOOSE v \in STRING : TRUE
QMin(x, y)   == CHOOSE v \in STRING : TRUE
QMax(x, y)   == CHOOSE v \in STRING : TRUE
QLt(x, y)    == CHOOSE v \in BOOLEAN : TRUE
QLeq(x, y)   == CHOOSE v \in BOOLEAN : TRUE
QCmp(x, y)   == CHOOSE v \in {-1, 0, 1} : TRUE
QSign(x)     == CHOOSE v \in {-1, 0, 1} : TRUE
QPowN(x, n)  == CHOOSE v \in STRING : TRUE   \* x^n, n an integer (negative allowed if x # 0)
QPow2(k)     == CHOOSE v \in STRING : TRUE   \* 2^k, k any integer
QFloor(x)    == CHOOSE v \in STRING : TRUE   \* floor as a rational
QFloorInt(x) == CHOOSE v \in Int : TRUE      \* floor as a TLC integer (must fit 32 bits)
QIsInt(x)    == CHOOSE v \in BOOLEAN : TRUE
QRootLo(x, n) == CHOOSE v \in STRING : TRUE  \* dyadic lo with lo <= x^(1/n), gap <= 2^-72 relative
QRootHi(x, n) == CHOOSE v \in STRING : TRUE  \* dyadic hi with x^(1/n) <= hi
QSum(seq)    == CHOOSE v \in STRING : TRUE   \* sum of a sequence of rationals
QBits(x)     == CHOOSE v \in Int : TRUE      \* size of the representation

Q0 == "0"
Q1 == "1"
Q2 == "2"
QHalf == "1/2"
QGt(x, y)  == QLt(y, x)
QGeq(x, y) == QLeq(y, x)
QSq(x)     == QMul(x, x)
QBetween(lo, x, hi) == QLeq(lo, x) /\ QLeq(x, hi)

(* |a - b| <= tol *)
QClose(a, b, tol) == QLeq(QAbs(QSub(a, b)), tol)

(* Relative/absolute tolerance used by the conformance clauses (DESIGN 2.2):  *)
(* 2^-40 times a scale plus 2^-44.                                          *)
QTol(scale) == QAdd(QMul(QPow2(-40), scale), QPow2(-44))
=============================================================================
