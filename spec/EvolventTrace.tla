---------------------------- MODULE EvolventTrace ----------------------------
(***************************************************************************)
(* Trace validation of Evolvent.GetImage / GetInverseImage / GetPreimages  *)
(* (C07, C08, C09): every event recorded from the real object must be      *)
(* explained by the specification in EvolventStep / EvolventQ.  One event  *)
(* is consumed per step; failing clauses are collected (the trace is       *)
(* always read to the end) and reported by Finish.                         *)
(*                                                                         *)
(* Event fields (doubles are exact rationals in Q's canonical form):       *)
(*   op = "image"     m lo up x y                                          *)
(*   op = "inverse"   m lo up y x                                          *)
(*   op = "roundtrip" m x x2            x2 = inverse(image(x))             *)
(*   op = "pair"      m lo up x1 x2 y1 y2   (Hoelder bound)                *)
(*   op = "adjacent"  m lo up y1 y2     images of subintervals i, i+1      *)
(*   op = "nest"      m lo up yc yf     images at densities m and m+1      *)
(***************************************************************************)
EXTENDS EvolventQ, Json, IOUtils, TLC

Trace == ndJsonDeserialize(IOEnv.TRACE_FILE)
TrackCov == "TRACK_COV" \in DOMAIN IOEnv /\ IOEnv.TRACK_COV = "1"

\* variable names must not collide with parameter names of the extended modules' operators
\* (that silently disables TLC's constant caching)
VARIABLES tpos, tfailed, tnfail, tcov, tdone
vars == <<tpos, tfailed, tnfail, tcov, tdone>>

Fails(e) ==
  CASE e.op = "image"     -> IF N = 1 THEN Image1Fails(e.x, e.y, e.lo, e.up)
                                       ELSE ImageFails(e.x, e.y, e.lo, e.up, e.m)
    [] e.op = "inverse"   -> IF N = 1 THEN Inverse1Fails(e.y, e.x, e.lo, e.up)
                                       ELSE InverseFails(e.y, e.x, e.lo, e.up, e.m)
    [] e.op = "roundtrip" -> IF N = 1 THEN \* the image is rounded to an ulp of its magnitude; the inverse divides that by the width
                                          (IF QClose(e.x, e.x2, QAdd(QPow2(-40), QMul(QPow2(-40), QDiv(Scale1(e.lo[1], e.up[1]), QSub(e.up[1], e.lo[1])))))
                                           THEN {} ELSE {"RoundTrip"})
                                       ELSE RoundTripFails(e.x, e.x2, e.m)
    [] e.op = "pair"      -> HoelderFails(e.x1, e.x2, e.y1, e.y2, e.lo, e.up, e.m)
    [] e.op = "adjacent"  -> AdjacentFails(e.y1, e.y2, e.lo, e.up, e.m)
    [] e.op = "nest"      -> NestFails(e.yc, e.yf, e.lo, e.up, e.m)
    [] e.op = "nonfinite" -> {"NonFinite"}        \* the query returned inf / nan
    [] e.op = "raises"    -> {"QueryRaises"}      \* the query raised (all recorded queries are inside the documented domain)
    [] OTHER              -> {"UnknownEvent"}

(* automaton transitions <<sig, d>> exercised by an image event *)
Visited(ds) ==
  LET F[k \in 0 .. Len(ds)] ==
        IF k = 0 THEN <<Sigma0, {}>>
        ELSE LET p == F[k - 1] IN <<StepTab[p[1]][ds[k]].sig, p[2] \cup {<<p[1], ds[k]>>}>>
  IN F[Len(ds)][2]

Init == tpos = 1 /\ tfailed = {} /\ tnfail = 0 /\ tcov = {} /\ tdone = FALSE

Consume ==
  /\ tpos <= Len(Trace)
  /\ \E f \in {Fails(Trace[tpos])} :
        /\ tfailed' = IF Cardinality(tfailed) < 20 THEN tfailed \cup {<<Trace[tpos].id, c>> : c \in f} ELSE tfailed
        /\ tnfail' = tnfail + (IF f = {} THEN 0 ELSE 1)
  /\ tcov' = IF TrackCov /\ N >= 2 /\ Trace[tpos].op = "image"
            THEN tcov \cup Visited(DigitsOfX(Trace[tpos].x, Trace[tpos].m)) ELSE tcov
  /\ tpos' = tpos + 1
  /\ UNCHANGED tdone

Finish ==
  /\ tpos = Len(Trace) + 1 /\ ~tdone
  /\ PrintT(<<"VERDICT", [events |-> Len(Trace), nfail |-> tnfail, failed |-> tfailed,
                         transitions |-> Cardinality(tcov),
                         alltransitions |-> IF N >= 2 THEN Cardinality(Reach) * NExp ELSE 0]>>)
  /\ tdone' = TRUE
  /\ UNCHANGED <<tpos, tfailed, tnfail, tcov>>

Next == Consume \/ Finish
Spec == Init /\ [][Next]_vars
=============================================================================
