--------------------------- MODULE BehaviourMatch ---------------------------
(***************************************************************************)
(* Spec -> code conformance for AGP.tla: for an objective given as a       *)
(* sequence of values (the k-th evaluation returns the k-th value) the     *)
(* design model, explored exhaustively, yields a SET of trial-coordinate   *)
(* sequences (one per resolution of the DEPQ's ties).  The real solver,    *)
(* driven with that objective, must produce one of them (coordinates are   *)
(* doubles in the code and exact rationals in the model: 2^-44 absolute).  *)
(***************************************************************************)
EXTENDS Q, Sequences, Integers, FiniteSets, Json, IOUtils, TLC

Recs == ndJsonDeserialize(IOEnv.TRACE_FILE)
Tol == QPow2(0 - 44)
Matches(code, m) == Len(code) = Len(m) /\ \A i \in 1..Len(code) : QClose(code[i], m[i], Tol)
Bad == {Recs[k].id : k \in {j \in 1..Len(Recs) : ~\E i \in 1..Len(Recs[j].model) : Matches(Recs[j].code, Recs[j].model[i])}}

VARIABLE done
Init == done = FALSE
Next == ~done /\ done' = TRUE /\ PrintT(<<"VERDICT", [records |-> Len(Recs), failed |-> Bad]>>)
Spec == Init /\ [][Next]_done
=============================================================================
