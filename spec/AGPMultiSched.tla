---------------------------- MODULE AGPMultiSched ----------------------------
(* Scenario generation for C12: every schedule of public calls of several solvers that AGPMulti.tla admits -  *)
(* (solver, call, k, nesting depth at which the call was issued) - printed for the harness to replay on real  *)
(* Solver instances.  Depth > 0 means the call is made inside the objective evaluation of another solver.     *)
EXTENDS AGPMulti
VARIABLE sched
SchedInit == Init /\ sched = <<>>
SchedNext ==
  \/ \E s \in Solvers :
       \/ \E k \in 1..MaxBatch : UserDGI(s, k) /\ sched' = Append(sched, <<s, "dgi", k, Len(stack)>>)
       \/ UserSolve(s) /\ sched' = Append(sched, <<s, "solve", 0, Len(stack)>>)
  \/ (\E s \in Solvers : SolveLoop(s) \/ SolveStop(s) \/ Begin(s) \/ ObjReturns(s) \/ EndCall(s)) /\ UNCHANGED sched
SchedSpec == SchedInit /\ [][SchedNext]_<<vars, sched>>
EmitSched == (stack = <<>> /\ sched # <<>>) => PrintT(<<"SCHED", sched>>)
=============================================================================
