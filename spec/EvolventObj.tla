---------------------------- MODULE EvolventObj ----------------------------
(***************************************************************************)
(* The Evolvent OBJECT as the code builds it (C17): configured bounds, a   *)
(* scratch vector that persists between calls, and NumPy arrays as heap    *)
(* objects with identity, dtype and contents.  What is abstracted is only  *)
(* the arithmetic: numbers are integers in half units, the box is          *)
(* [c - 1/2, c + 1/2] (width 1), so for the N = 1 path                      *)
(*        image(x) = (x - 1/2) + c        inverse(y) = (y - c) + 1/2        *)
(* An integer-typed array can only hold whole numbers (even numbers of     *)
(* half units): storing into it truncates, which is how NumPy behaves.     *)
(*                                                                         *)
(* The model is parameterised by the three places where the code decides   *)
(* about copying, so that the configuration "as required" can be shown     *)
(* pure and the others shown impure by TLC (negative configurations):      *)
(*   CopyIn  = "float"  GetInverseImage/GetPreimages copy the argument     *)
(*                      into a fresh float64 scratch   (the repaired code) *)
(*           = "same"   np.copy(y): fresh array of the ARGUMENT's dtype    *)
(*                      (the pinned code, defect D8)                        *)
(*           = "alias"  np.asarray(y): a float64 argument becomes the      *)
(*                      scratch itself                                     *)
(*   CopyOut = TRUE     GetImage returns np.copy(scratch)                  *)
(*   InPlace = TRUE     N = 1: __GetYonX writes scratch[0] in place;       *)
(*             FALSE    N >= 2: it allocates a new zero vector first       *)
(*                                                                         *)
(* The user process may issue any sequence of calls; vhist records it so   *)
(* that every behaviour TLC finds can be replayed on the real object.      *)
(***************************************************************************)
EXTENDS Integers, Sequences, FiniteSets, TLC

CONSTANTS CopyIn, CopyOut, InPlace, MaxLen,
          XS,        \* curve coordinates the user may query (half units: 0, 1, 2 = 0, 0.5, 1)
          YS,        \* box values the user may pass to the inverse (half units)
          CS,        \* box centres the user may configure (half units)
          ArgKinds   \* subset of {"f64", "list", "ilist"}: ndarray[float64], list of floats, list of ints

VARIABLES vheap,     \* id -> [dt |-> "f" | "i", v |-> Int]   arrays (one element is enough)
          vscratch,  \* id of the object's scratch vector
          vc,        \* configured box centre
          vhanded,   \* set of <<id, value>>: arrays returned to the user, with the value they had then
          vargs,     \* set of <<id, value>>: arrays the user passed in (the user still holds them)
          vlast,     \* [got |-> .., want |-> ..] of the latest query (both in half units)
          vhist      \* the call history, for replay

vars == <<vheap, vscratch, vc, vhanded, vargs, vlast, vhist>>

Trunc(v) == IF v >= 0 THEN 2 * (v \div 2) ELSE -(2 * ((-v) \div 2))     \* toward zero, to a whole number
Store(a, v) == [a EXCEPT !.v = IF a.dt = "i" THEN Trunc(v) ELSE v]
NewId == Cardinality(DOMAIN vheap) + 1

(* the specification's pure maps *)
Img(c, x) == (x - 1) + c
Inv(c, y) == (y - c) + 1

Init ==
  /\ vheap = (1 :> [dt |-> "f", v |-> 0])
  /\ vscratch = 1
  /\ vc \in CS
  /\ vhanded = {} /\ vargs = {} /\ vlast = [got |-> 0, want |-> 0]
  /\ vhist = <<[op |-> "new", c |-> vc]>>

SetBounds(c) ==
  /\ vc' = c
  /\ vhist' = Append(vhist, [op |-> "setbounds", c |-> c])
  /\ UNCHANGED <<vheap, vscratch, vhanded, vargs, vlast>>

GetImage(x) ==
  LET sid  == IF InPlace THEN vscratch ELSE NewId                \* N >= 2 allocates np.zeros first
      h0   == IF InPlace THEN vheap ELSE vheap @@ (sid :> [dt |-> "f", v |-> 0])
      h1   == [h0 EXCEPT ![sid] = Store(@, x - 1)]               \* __GetYonX:      y = x - 0.5
      h2   == [h1 EXCEPT ![sid] = Store(@, h1[sid].v + vc)]      \* __TransformP2D: y = y*w + centre
      rid  == IF CopyOut THEN Cardinality(DOMAIN h2) + 1 ELSE sid
      h3   == IF CopyOut THEN h2 @@ (rid :> [dt |-> h2[sid].dt, v |-> h2[sid].v]) ELSE h2
  IN /\ vheap' = h3
     /\ vscratch' = sid
     /\ vhanded' = vhanded \cup {<<rid, h3[rid].v>>}
     /\ vlast' = [got |-> h3[rid].v, want |-> Img(vc, x)]
     /\ vhist' = Append(vhist, [op |-> "image", x |-> x])
     /\ UNCHANGED <<vc, vargs>>

(* the user builds the argument; a Python list is converted by NumPy into a NEW array, so only an *)
(* ndarray argument can be aliased                                                              *)
GetInverse(y, kind, via) ==
  LET aid   == NewId
      adt   == IF kind = "ilist" THEN "i" ELSE "f"
      h0    == vheap @@ (aid :> [dt |-> adt, v |-> IF adt = "i" THEN Trunc(y) ELSE y])
      yv    == h0[aid].v
      alias == CopyIn = "alias" /\ kind = "f64"
      sid   == IF alias THEN aid ELSE aid + 1
      sdt   == IF CopyIn = "float" THEN "f" ELSE adt
      h1    == IF alias THEN h0 ELSE h0 @@ (sid :> [dt |-> sdt, v |-> yv])
      h2    == [h1 EXCEPT ![sid] = Store(@, h1[sid].v - vc)]      \* __TransformD2P in place
      xv    == h2[sid].v + 1                                       \* __GetXonY: x = y + 0.5
      h3    == IF InPlace THEN h2 ELSE [h2 EXCEPT ![sid] = Store(@, 0)]   \* N >= 2 consumes the residual
  IN /\ vheap' = h3
     /\ vscratch' = sid
     /\ vargs' = IF kind = "f64" THEN vargs \cup {<<aid, yv>>} ELSE vargs
     /\ vlast' = [got |-> xv, want |-> Inv(vc, yv)]
     /\ vhist' = Append(vhist, [op |-> via, y |-> y, kind |-> kind])
     /\ UNCHANGED <<vc, vhanded>>

Next ==
  /\ Len(vhist) < MaxLen
  /\ \/ \E c \in CS : SetBounds(c)
     \/ \E x \in XS : GetImage(x)
     \/ \E y \in YS, k \in ArgKinds, via \in {"inverse", "preimages"} : GetInverse(y, k, via)

Spec == Init /\ [][Next]_vars

---------------------------------------------------------------------------
(* C17 *)
ResultPure   == vlast.got = vlast.want
HandedStable == \A p \in vhanded : vheap[p[1]].v = p[2]
ArgsStable   == \A p \in vargs : vheap[p[1]].v = p[2]
NoAliasOut   == \A p \in vhanded : p[1] # vscratch

(* complete histories, printed for the replay driver (set PrintHist in the cfg as a CONSTRAINT) *)
PrintHist == (Len(vhist) = MaxLen => PrintT(<<"HIST", vhist>>)) /\ TRUE
=============================================================================
