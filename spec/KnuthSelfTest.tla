--------------------------- MODULE KnuthSelfTest ---------------------------
(* The self-test published with Knuth's rng-double.c (1997 version, the one the GKLS package derives from):                *)
(*   ranf_start(310952); 2009 times ranf_array(a, 1009);  then ran_u[0] = 0.27452626307394156768                           *)
(* evaluated on the exact model KnuthRNG.tla.  (%.20f prints the exact binary value rounded to 20 decimals.)                *)
EXTENDS KnuthRNG
RECURSIVE Spin(_, _)
Spin(st, k) == IF k = 0 THEN st ELSE Spin(RanfArray(st, 1009).st, k - 1)
Ten == "a"
Expected == QDiv(QAdd(QAdd(QMul(QInt(274526263), QPowN(Ten, 11)), QMul(QInt(73941567), QPowN(Ten, 2))), QInt(68)), QPowN(Ten, 20))
ASSUME SelfTest == \E x \in {Spin(RanfStart(310952), 2009)[1]} :
                     /\ PrintT(<<"KNUTH", x, QClose(x, Expected, QDiv(Q1, QPowN(Ten, 20)))>>)
                     /\ QClose(x, Expected, QDiv(Q1, QPowN(Ten, 20)))
=============================================================================
