---------------------------- MODULE ContainersMC ----------------------------
(***************************************************************************)
(* Exhaustive exploration of all short operation histories on a search     *)
(* data container (Containers.tla): the user creates and inserts items     *)
(* with coordinates from Xs and characteristics from Ks (with or without   *)
(* the right-neighbour hint), re-assigns characteristics, clears, refills  *)
(* and asks for the best interval; the DEPQ resolves ties arbitrarily.     *)
(* Structural invariants are checked in every state; every history (hist)  *)
(* of maximal length is printed for the harness, which replays it on the   *)
(* real SearchData / SearchDataDualQueue and validates the recorded        *)
(* results with ContainersTrace.tla.                                       *)
(* WrongHints = TRUE lets the user pass a hint that is NOT the right       *)
(* neighbour (outside the property's precondition): negative control, the  *)
(* structural invariants must then be refuted.                             *)
(***************************************************************************)
EXTENDS Containers, TLC

CONSTANTS Xs, Ks, K0, MaxLen, Dual, Depth, WrongHints, Emit, QueryEnds

VARIABLES c, hist
vars == <<c, hist>>

X0 == "0"
X1 == "1"

Init ==
  /\ c = InsertFirst(NewItem(NewItem(Empty(MaxLen, Dual), X0, "-inf", "-inf"), X1, K0, K0), 1, 2)
  /\ hist = <<>>

Can == Len(hist) < Depth
Used == {c.x[i] : i \in 1..Len(c.x)}
RightOf(x) == Find(c, x)

DoInsert ==
  Can /\ \E x \in Xs \ Used : \E g \in Ks : \E l \in (IF Dual THEN Ks ELSE {g}) : \E hinted \in BOOLEAN :
    \E h \in (IF ~hinted THEN {NoItem}
              ELSE IF WrongHints THEN {i \in InList(c) : c.left[i] # NoItem} ELSE {RightOf(x)}) :
      LET c1 == NewItem(c, x, g, l) IN
        /\ \E c2 \in Insert(c1, Len(c1.x), h) : c' = c2
        /\ hist' = Append(hist, <<"insert", x, g, l, h>>)
DoSetR ==
  Can /\ \E i \in InList(c) \ {1} : \E g \in Ks : \E l \in (IF Dual THEN Ks ELSE {g}) :
    /\ (g # c.g[i] \/ l # c.l[i])
    /\ c' = SetR(c, i, g, l) /\ hist' = Append(hist, <<"setr", i, g, l>>)
DoClear  == Can /\ c' = ClearQ(c) /\ hist' = Append(hist, <<"clear">>)
DoRefill == Can /\ \E c2 \in Refill(c) : c' = c2 /\ hist' = Append(hist, <<"refill">>)
DoMaxG   == Can /\ \E o \in GetMaxG(c) : c' = o[2] /\ hist' = Append(hist, <<"maxg">>)
DoMaxL   == Can /\ Dual /\ \E o \in GetMaxL(c) : c' = o[2] /\ hist' = Append(hist, <<"maxl">>)
(* queries: every insertable coordinate, the two end coordinates, one below the first and one above the last item *)
Queries == IF QueryEnds THEN Xs \cup {X0, X1, "-1", "2"} ELSE Xs \cup {"-1"}      \* (the deepest history enumerations keep one outside query)
DoFind   == Can /\ \E x \in Queries : c' = c /\ hist' = Append(hist, <<"find", x>>)

Next == DoInsert \/ DoSetR \/ DoClear \/ DoRefill \/ DoMaxG \/ DoMaxL \/ DoFind
Spec == Init /\ [][Next]_vars

Structure == Sorted(c) /\ LinksOK(c) /\ CountOK(c) /\ BoundOK(c) /\ QueueItemsOK(c)
(* Find returns the first item to the right of the query, in every reachable state *)
FindOK == \A x \in Queries : LET r == Find(c, x) IN
            IF \E i \in InList(c) : QLt(x, c.x[i])
            THEN /\ r # NoItem /\ QLt(x, c.x[r])
                 /\ \A i \in InList(c) : QLt(x, c.x[i]) => QLeq(c.x[r], c.x[i])
            ELSE r = NoItem
(* a best-interval request never returns an item whose entry was not maximal: by construction of PopMax; *)
(* what is checked here is that some outcome always exists (the lazy loop terminates)                    *)
MaxDefined == GetMaxG(c) # {} /\ (Dual => GetMaxL(c) # {})

EmitHist == (Emit /\ Len(hist) = Depth) => PrintT(<<"HIST", hist>>)
=============================================================================
