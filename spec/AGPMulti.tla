------------------------------ MODULE AGPMulti ------------------------------
(***************************************************************************)
(* C12 at design level: several Solver instances in one Python process.    *)
(*                                                                         *)
(* Each solver is an AGPStep record.  What can couple two instances is     *)
(* Python object sharing, so the mutable objects whose identity matters    *)
(* are modelled as an explicit heap:                                       *)
(*   list objects    Solution.bestTrials (one slot: the best trial)        *)
(*   holder objects  FunctionValue holders of search-data items            *)
(* A constructor with a mutable DEFAULT ARGUMENT hands the same object to  *)
(* every instance built with the default.  SharedDefaults = TRUE is the    *)
(* tree as it was pinned (Solution(bestTrials=[Trial]) and                 *)
(* SearchDataItem(functionValues=[FunctionValue()])): TLC must refute      *)
(* Isolated - a negative control showing the model sees defects D2/D3.     *)
(* SharedDefaults = FALSE is the repaired discipline (fresh objects).      *)
(*                                                                         *)
(* Python is sequential: another solver can act only where user code runs  *)
(* - between public calls, and INSIDE an objective evaluation (a nested    *)
(* solve in an objective) - and a nested call returns before the outer one *)
(* resumes.  `stack` is the call stack of solvers with a call in progress. *)
(***************************************************************************)
EXTENDS AGPStep

CONSTANTS Solvers,        \* e.g. {1, 2}
          Vals, MaxCalls, MaxBatch, MaxTrials, SharedDefaults

VARIABLES sv,        \* [Solvers -> AGPStep record]
          listOf,    \* [Solvers -> id of the bestTrials list object of the solver's Solution]
          lists,     \* heap: [list id -> <<owner solver, x of the trial stored in slot 0>> or <<>>]
          holderOf,  \* [Solvers -> [x |-> holder id]] as a set of <<x, id>> per solver
          holders,   \* heap: [holder id -> value or None]
          stack,     \* sequence of solvers with a public call in progress (top = last)
          ncalls,    \* [Solvers -> number of public calls issued]
          actor      \* the solver that made the last step (0 initially)
vars == <<sv, listOf, lists, holderOf, holders, stack, ncalls, actor>>

DefaultId == 0
ListId(s) == IF SharedDefaults THEN DefaultId ELSE s
(* holder ids: the default holder 0, or a fresh id unique to (solver, trial number) *)
FreshHolder(s, k) == s * 100 + k

Init ==
  /\ sv = [s \in Solvers |-> InitSolver]
  /\ listOf = [s \in Solvers |-> ListId(s)]
  /\ lists = [i \in {ListId(s) : s \in Solvers} |-> <<>>]
  /\ holderOf = [s \in Solvers |-> {}]
  /\ holders = [i \in {DefaultId} |-> None]
  /\ stack = <<>> /\ ncalls = [s \in Solvers |-> 0] /\ actor = 0

Top == stack[Len(stack)]
InStack(s) == \E i \in 1..Len(stack) : stack[i] = s

(* a public call on solver s may start at top level, or nested inside the objective evaluation of the solver *)
(* on top of the stack; never re-entrantly on a solver that is itself in a call                             *)
MayCall(s) == /\ ~InStack(s) /\ ncalls[s] < MaxCalls
              /\ (IF stack = <<>> THEN TRUE ELSE sv[Top].pc = "eval")

Set(s, r) == [sv EXCEPT ![s] = r]
Quiet == UNCHANGED <<listOf, lists, holderOf, holders>>

UserDGI(s, k) == /\ MayCall(s) /\ sv' = Set(s, CallDGI(sv[s], k)) /\ stack' = Append(stack, s)
                 /\ ncalls' = [ncalls EXCEPT ![s] = @ + 1] /\ actor' = s /\ Quiet
UserSolve(s)  == /\ MayCall(s) /\ sv' = Set(s, CallSolve(sv[s])) /\ stack' = Append(stack, s)
                 /\ ncalls' = [ncalls EXCEPT ![s] = @ + 1] /\ actor' = s /\ Quiet

Running(s) == IF stack = <<>> THEN FALSE ELSE Top = s

Pop == SubSeq(stack, 1, Len(stack) - 1)
(* internal steps of the solver on top of the stack *)
SolveLoop(s) == /\ Running(s) /\ sv[s].pc = "solve" /\ ~Stop(sv[s]) /\ sv' = Set(s, SolveIterate(sv[s]))
                /\ UNCHANGED <<stack, ncalls>> /\ actor' = s /\ Quiet
SolveStop(s) == /\ Running(s) /\ sv[s].pc = "solve" /\ Stop(sv[s]) /\ sv' = Set(s, SolveEnd(sv[s]))
                /\ stack' = Pop /\ UNCHANGED ncalls /\ actor' = s /\ Quiet
Begin(s)     == /\ Running(s) /\ sv[s].pc = "dgi" /\ sv[s].left > 0
                /\ IF sv[s].first THEN sv' = Set(s, BeginFirst(sv[s]))
                   ELSE \E s1 \in {Refilled(Recalced(sv[s]))} : \E e \in MaxEntries(s1.queue) : sv' = Set(s, BeginIter(s1, e))
                /\ UNCHANGED <<stack, ncalls>> /\ actor' = s /\ Quiet
(* the objective returns z: the value is written into the new item's holder (Problem.Calculate stores it in the *)
(* holder it was given), the item keeps a private copy (SetZ), and UpdateOptimum stores the best item into      *)
(* slot 0 of the solution's list object                                                                        *)
ObjReturns(s) ==
  /\ Running(s) /\ sv[s].pc = "eval"
  /\ \E z \in Vals :
       \E r \in {Eval(sv[s], z)} :
         \E h \in {IF sv[s].first /\ SharedDefaults THEN DefaultId ELSE FreshHolder(s, sv[s].trials + 1)} :
           /\ sv' = Set(s, r)
           /\ holderOf' = [holderOf EXCEPT ![s] = @ \cup {<<sv[s].nx, h>>}]
           /\ holders' = [i \in DOMAIN holders \cup {h} |-> IF i = h THEN z ELSE holders[i]]
           /\ lists' = [lists EXCEPT ![listOf[s]] = <<s, r.best>>]
  /\ UNCHANGED <<listOf, stack, ncalls>> /\ actor' = s
EndCall(s)   == /\ Running(s) /\ sv[s].pc = "dgi" /\ sv[s].left = 0 /\ sv' = Set(s, EndDGI(sv[s]))
                /\ stack' = IF sv[s].insolve THEN stack ELSE Pop
                /\ UNCHANGED ncalls /\ actor' = s /\ Quiet

Next == \E s \in Solvers :
          \/ \E k \in 1..MaxBatch : UserDGI(s, k)
          \/ UserSolve(s) \/ SolveLoop(s) \/ SolveStop(s) \/ Begin(s) \/ ObjReturns(s) \/ EndCall(s)
Spec == Init /\ [][Next]_vars
Bound == \A s \in Solvers : sv[s].trials <= MaxTrials

---------------------------------------------------------------------------
(* what a user can observe of solver s (C12: trial sequence, search information, returned Solution) *)
HolderVal(s, x) == LET hs == {p \in holderOf[s] : p[1] = x} IN
                     IF hs = {} THEN None ELSE holders[(CHOOSE p \in hs : TRUE)[2]]
Obs(s) ==
  [evals  |-> sv[s].evals,
   record |-> [i \in 1..Len(sv[s].pts) |-> <<sv[s].pts[i].x, sv[s].pts[i].z, HolderVal(s, sv[s].pts[i].x)>>],
   best   |-> lists[listOf[s]],          \* what GetResults().bestTrials[0] refers to - also through an earlier returned Solution
   count  |-> sv[s].trials, acc |-> sv[s].minD]

(* C12: a step of one solver leaves every observable of every other solver unchanged *)
Isolated == [][\A s \in Solvers : s # actor' => Obs(s)' = Obs(s)]_vars

(* each solver's own view is coherent: stored values are the logged ones and the reported best is its own best *)
OwnViewOK ==
  \A s \in Solvers :
    /\ \A i \in 1..Len(sv[s].pts) : IsEval(sv[s].pts[i]) => HolderVal(s, sv[s].pts[i].x) = sv[s].pts[i].z
    /\ (sv[s].trials > 0 => lists[listOf[s]] = <<s, sv[s].best>>)

(* distinct solvers use distinct heap objects *)
DistinctObjects ==
  \A s, t \in Solvers : s # t =>
     /\ listOf[s] # listOf[t]
     /\ {p[2] : p \in holderOf[s]} \cap {p[2] : p \in holderOf[t]} = {}

=============================================================================
