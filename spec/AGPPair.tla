------------------------------ MODULE AGPPair ------------------------------
(***************************************************************************)
(* C11 at design level: the trial sequence is a function of the objective  *)
(* and r only - not of how the iterations are batched into public calls.   *)
(*                                                                         *)
(* Two copies of the solver (AGPStep) work on the SAME objective:          *)
(*   ref  the reference: plain single iterations (DoGlobalIteration(1)),   *)
(*        never a stop check; it runs first, and the objective's value at  *)
(*        each point it visits is chosen nondeterministically from Vals    *)
(*        and remembered (memo) - so TLC ranges over all objectives;       *)
(*   a    driven by an arbitrary user: any mixture of DoGlobalIteration(k) *)
(*        and Solve calls; the objective answers it from the memo.         *)
(* Since any two call patterns are compared with the same reference, they  *)
(* are thereby compared with each other.                                   *)
(*                                                                         *)
(* The DEPQ's order among equal keys is a function of its operation        *)
(* history, which batching does not change; here the tie is broken by a    *)
(* fixed deterministic rule (smallest coordinate).  The single-solver      *)
(* module AGP.tla keeps the tie-break nondeterministic.                    *)
(***************************************************************************)
EXTENDS AGPStep

CONSTANTS Vals, MaxCalls, MaxBatch, RefTrials   \* RefTrials: length of the reference run

VARIABLES ref, a, memo, calls, stopAt, dgiBefore
vars == <<ref, a, memo, calls, stopAt, dgiBefore>>
(* memo: set of <<x, z>>; stopAt: number of trials of `a` after which the stop criterion first held (0: not yet)  *)
(* dgiBefore: trials `a` had made when its current/last Solve was called                                         *)

Pick(s1) == CHOOSE e \in MaxEntries(s1.queue) : \A f \in MaxEntries(s1.queue) : QLeq(e[1], f[1])

Init == /\ ref = CallDGI(InitSolver, RefTrials) /\ a = InitSolver /\ memo = {} /\ calls = <<>>
        /\ stopAt = 0 /\ dgiBefore = 0

---------------------------------------------------------------------------
(* phase 1: the reference makes RefTrials single iterations *)
RefBegin == /\ ref.pc = "dgi" /\ ref.left > 0
            /\ ref' = IF ref.first THEN BeginFirst(ref) ELSE With(Refilled(Recalced(ref)), LAMBDA s1 : BeginIter(s1, Pick(s1)))
            /\ UNCHANGED <<a, memo, calls, stopAt, dgiBefore>>
RefEval  == /\ ref.pc = "eval"
            /\ \E z \in Vals : ref' = Eval(ref, z) /\ memo' = memo \cup {<<ref.nx, z>>}
            /\ UNCHANGED <<a, calls, stopAt, dgiBefore>>
RefDone  == ref.pc = "dgi" /\ ref.left = 0

(* phase 2: the user drives `a` *)
UserDGI(k) == /\ RefDone /\ a.pc = "idle" /\ Len(calls) < MaxCalls /\ a.trials + k <= RefTrials
              /\ a' = CallDGI(a, k) /\ calls' = Append(calls, <<"dgi", k>>)
              /\ UNCHANGED <<ref, memo, stopAt, dgiBefore>>
UserSolve  == /\ RefDone /\ a.pc = "idle" /\ Len(calls) < MaxCalls
              /\ a' = CallSolve(a) /\ calls' = Append(calls, <<"solve">>) /\ dgiBefore' = a.trials
              /\ UNCHANGED <<ref, memo, stopAt>>
SolveLoop  == /\ a.pc = "solve" /\ ~Stop(a) /\ a.trials < RefTrials
              /\ a' = SolveIterate(a) /\ UNCHANGED <<ref, memo, calls, stopAt, dgiBefore>>
SolveStop  == /\ a.pc = "solve" /\ Stop(a) /\ a' = SolveEnd(a) /\ UNCHANGED <<ref, memo, calls, stopAt, dgiBefore>>
Begin      == /\ a.pc = "dgi" /\ a.left > 0
              /\ a' = IF a.first THEN BeginFirst(a) ELSE With(Refilled(Recalced(a)), LAMBDA s1 : BeginIter(s1, Pick(s1)))
              /\ UNCHANGED <<ref, memo, calls, stopAt, dgiBefore>>
Answer     == /\ a.pc = "eval" /\ \E p \in memo : p[1] = a.nx
              /\ \E p \in memo : /\ p[1] = a.nx
                                 /\ \E a1 \in {Eval(a, p[2])} :
                                      /\ a' = a1
                                      /\ stopAt' = IF stopAt = 0 /\ Stop(a1) THEN a1.trials ELSE stopAt
              /\ UNCHANGED <<ref, memo, calls, dgiBefore>>
EndCall    == /\ a.pc = "dgi" /\ a.left = 0 /\ a' = EndDGI(a) /\ UNCHANGED <<ref, memo, calls, stopAt, dgiBefore>>

Next == RefBegin \/ RefEval \/ (\E k \in 1..MaxBatch : UserDGI(k)) \/ UserSolve \/ SolveLoop \/ SolveStop
        \/ Begin \/ Answer \/ EndCall
Spec == Init /\ [][Next]_vars

---------------------------------------------------------------------------
Xs(s) == [j \in 1..Len(s.evals) |-> s.evals[j][1]]

(* the memo is a function: the reference never visits a point twice *)
MemoFun == \A p, q \in memo : p[1] = q[1] => p = q

(* every trial of `a` - whatever the call pattern - is the reference's trial of the same index; checked at the *)
(* earliest moment: when the point has been computed, before the objective is asked                           *)
SameSequence ==
  /\ \A j \in 1..Len(a.evals) : j <= Len(ref.evals) => a.evals[j][1] = ref.evals[j][1]
  /\ (a.pc = "eval" /\ Len(a.evals) < Len(ref.evals)) => a.nx = ref.evals[Len(a.evals) + 1][1]

(* the whole state relevant to the continuation agrees with the reference's state at the same trial count *)
SameStateAtEnd ==
  (RefDone /\ a.pc = "idle" /\ a.trials = ref.trials) => a.pts = ref.pts /\ a.M = ref.M /\ a.Zb = ref.Zb /\ a.best = ref.best

(* Solve merely ends at the first moment the stop criterion holds: after a completed Solve the number of trials  *)
(* is the larger of (trials made before the call, first index at which the criterion held)                     *)
LastIsSolve == calls # <<>> /\ calls[Len(calls)] = <<"solve">>
SolveEndsAtFirstStop ==
  (a.pc = "idle" /\ LastIsSolve /\ a.trials < RefTrials) =>
     /\ stopAt > 0
     /\ a.trials = (IF dgiBefore > stopAt THEN dgiBefore ELSE stopAt)

(* Solve on a finished solver performs no trial *)
SolveAgainNoTrials == [][(a.pc = "solve" /\ Stop(a)) => a'.trials = a.trials /\ a'.pc = "idle"]_vars

(* the stop index does not depend on the call pattern: it is the first index at which the criterion holds on  *)
(* the reference's own history (recomputed from ref's record of popped interval lengths)                      *)
RefStopIndex ==
  LET idx == {k \in 1..ref.trials :
                \/ k >= Limit
                \/ \E j \in 1..(k - 1) : j <= Len(ref.cds) /\ QLt(ref.cds[j], Eps)}
  IN IF idx = {} THEN 0 ELSE CHOOSE k \in idx : \A k2 \in idx : k <= k2
(* cds[j] is the interval popped for trial j+1; the criterion is evaluated after trial k with cds[1..k-1] *)
StopIndexOK == (RefDone /\ stopAt > 0) => stopAt = RefStopIndex

EmitCalls == (RefDone /\ a.pc = "idle" /\ calls # <<>>) => PrintT(<<"CALLS", calls>>)
=============================================================================
