#!/bin/sh
# Builds the TLC numeric kernel (Java module override) from files on disk only and self-tests it.
set -e
cd "$(dirname "$0")"
mkdir -p build/classes evidence
javac -nowarn -d build/classes -cp /opt/veriftools/tla/tla2tools.jar kernel/iopt/verif/*.java
/venv/bin/python -m harness.selftest
