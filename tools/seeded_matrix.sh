#!/bin/bash
# tools/seeded_matrix.sh [tier]  - runs every seeded change against the check of the property it breaks (and, for the
# reverts of the fix: commits, against the property recorded in known_findings.json); prints one line per change.
cd "$(dirname "$0")/.."
TIER=${1:-quick}
for d in seeded/*/; do
  id=$(basename $d)
  if [ -f $d/meta.json ]; then prop=$(python3 -c "import json;print(json.load(open('$d/meta.json'))['breaks_property'])"); else
    case $id in R-D2) prop=C12;; R-D3) prop=C12;; R-D4) prop=C13;; R-D5) prop=C05;; R-D6) prop=C20;; R-D7) prop=C07;; R-D8) prop=C17;; R-D9) prop=C04;; R-D10) prop=C13;; *) prop=C03;; esac; fi
  timeout 1500 tools/seeded.sh $id $prop $TIER | head -1 | cut -c1-220
done
