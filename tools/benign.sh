#!/bin/bash
# tools/benign.sh <benign-id> [checks...]  - applies a behaviour-preserving change (seeded/benign-*) in a scratch worktree and runs the
# quick checks against it: every one must exit 0 without a VIOLATION line.  Prints one line per check.
set -u
BID=$1; shift; V=/verif
CHECKS=${*:-C01 C02 C03 C04 C05 C06 C07 C08 C09 C10 C11 C12 C13 C14 C15 C16 C17 C18 C19 C20}
W=$(mktemp -d /tmp/ioptverif-benign-XXXXXX); rmdir $W
git -C /repo worktree add -q --detach $W HEAD || exit 2
if ! git -C $W apply $V/seeded/$BID/patch.diff; then echo "$BID APPLY-FAIL"; git -C /repo worktree remove --force $W; exit 2; fi
for p in $CHECKS; do
  OUT=$(IOPT_VERIF_REPO=$W IOPT_VERIF_EVIDENCE_DIR=$W/.ev VERIF_TIER=quick timeout 1500 $V/check $p 2>&1); rc=$?
  if [ $rc -eq 0 ] && ! echo "$OUT" | grep -q "^VIOLATION"; then echo "$BID $p silent"; else echo "$BID $p ALARM rc=$rc: $(echo "$OUT" | grep -v '^KNOWN' | grep -A1 '^VIOLATION' | head -4 | tr '\n' ' ' | cut -c1-300)"; echo "$OUT" | grep -v "^KNOWN" | tail -3 | cut -c1-300; fi
done
git -C /repo worktree remove --force $W
