#!/usr/bin/env python3
"""Writes /verif/golden/gkls.json: parameters and 50 values per GKLS function, recorded from /repo's problem code.
Run once on the pinned tree (the fix: commits do not touch iOpt/problems); cross-checked by the repository's own literal
GKLS(3,1)(0.9,0.5,0.3) = 0.93113217376043778 and by GKLSSpec.tla's structural clauses."""
import os
import sys
sys.path.insert(0, os.path.dirname(os.path.dirname(os.path.abspath(__file__))))
from harness.gkls_drv import write_golden   # noqa: E402
print(write_golden(), "functions recorded")
