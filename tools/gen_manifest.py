#!/usr/bin/env python3
"""Regenerates /verif/MANIFEST.json from the table below (single source of truth for what is claimed)."""
import json
import os

V = os.path.dirname(os.path.dirname(os.path.abspath(__file__)))

TRUST = ("TLC 1.8.0/SANY/CommunityModules; the Q kernel (Java BigInteger rationals, self-tested by QSelfTest.tla at setup); "
         "the black-box recorder (copies observable values, doubles encoded exactly); comparison tolerance 2^-40 relative "
         "(DESIGN 2.2); exhaustive runs are bounded by the constants named in the evidence file")

CHECKS = {
    "C07": dict(level="model_checking", design="4/C07", technique="TLC exhaustive exploration of the evolvent orientation automaton (all densities) + TLC trace validation of Evolvent.GetImage",
                text="EvolventAuto.tla is explored exhaustively for N=2..5: in every reachable orientation state the 2^N digits give 2^N distinct offsets, which by induction on the level makes digit-string -> cell a bijection for EVERY density; EvolventMC.tla re-checks bijectivity outright on small grids. The specification is bound to the code by trace validation: every GetImage call of the real object (all subintervals of small grids incl. both ends of each, stress points up to N*m=50, random boxes, rebinding with SetBounds, instances built in adverse order) is recorded and EvolventTrace.tla recomputes the cell from the exact binary digits of x and requires the returned point to be that cell's centre inside the box."),
    "C08": dict(level="model_checking", design="4/C08", technique="TLC exhaustive exploration of the pair automaton (face adjacency at all densities) + integer Hoelder check on all pairs of small grids + trace validation",
                text="The pair automaton in EvolventAuto.tla (two consecutive subintervals followed through all deeper levels) is finite and explored exhaustively for N=2..5: the two cell centres always differ in exactly one coordinate by one cell width. EvolventMC.tla checks the Hoelder inequality in exact integers for all pairs of subintervals of small grids (in the stronger form needed for arbitrary points of the subintervals). Bound to the code by trace validation of consecutive-subinterval pairs, (m, m+1) nesting pairs and random point pairs of the real object against exact-arithmetic clauses."),
    "C09": dict(level="model_checking", design="4/C09", technique="TLC exhaustive lock-step check of the inverse level step on the orientation automaton + trace validation of GetInverseImage/GetPreimages",
                text="EvolventAuto.tla: for every reachable orientation and digit the inverse level step reads back the digit and reaches the same next orientation, so inverse(image(digits)) = digits at every density; EvolventMC.tla checks both round trips on small grids. Bound to the code by trace validation: inverse queries on random box points (arrays, lists, tuples; after SetBounds) must return a subinterval left end whose cell contains y; round trips must return x rounded down to the grid exactly."),
    "C17": dict(level="model_checking", design="4/C17", technique="TLC exhaustive exploration of a heap model of the scratch vector (all call histories) + replay of every TLC-generated history on the real object + TLC trace validation (memo semantics, array identity)",
                text="EvolventObj.tla models the object with its persistent scratch vector and NumPy arrays as heap objects (identity, dtype, contents); all call histories over a small alphabet are explored; the copying discipline of the repaired code is shown pure and three alternative disciplines (incl. the pinned tree's np.copy) are shown impure by counterexample. Every history TLC enumerates is replayed on the real Evolvent for N=1,2,3, plus long random histories; EvolventObjTrace.tla checks bit-exact memo consistency across calls, SetBounds and objects, that handed-out arrays never change or repeat, and that arguments are unmodified."),
}

SOLVER_NOTE = " Bound to the code by trace validation: the recorder is black-box (recording Problem wrapper, recording Listener, public getters); M, z*, all characteristics and the accuracy are recomputed by TLC in exact rational arithmetic from the recorded history (AGPCore.tla/AGPTrace.tla), never read from the solver."
CHECKS.update({
    "C02": dict(level="model_checking", design="4/C02", technique="TLC trace validation of every trial of recorded solver runs against the AGP decision rule recomputed exactly from the history (AGPTrace.tla)",
                text="Every trial of every recorded run (random objectives incl. plateaus/steps/constants, N=1..5, r in (1,10], batches of DoGlobalIteration, refinement in the middle of a search, the repository's benchmark instances) must subdivide an interval whose exactly recomputed characteristic is maximal (within 2^-40 relative), at the rule's point, strictly inside, never at an existing point; the first trial at x=1/2." + SOLVER_NOTE),
    "C03": dict(level="model_checking", design="4/C03", technique="TLC trace validation of stop timing, trial budget, counters and reported accuracy on an eps x itersLimit x entry-mode grid (AGPTrace.tla)",
                text="On a grid of eps (incl. >= 1) x itersLimit (incl. 1, 2) x entry modes (fresh Solve, repeated Solve, DoGlobalIteration up to or past the budget, then Solve) the specification's stop predicate - recomputed from the history - must be false before every iteration made inside Solve and true when Solve returns; objective calls = reported trials <= budget; reported accuracy = smallest subdivided interval length; Solve returns without an internal exception." + SOLVER_NOTE),
    "C04": dict(level="model_checking", design="4/C04", technique="TLC trace validation of the reported optimum after every public call and inside every listener callback, incl. interleaved solvers (AGPTrace.tla)",
                text="After every public call, inside every OnEndIteration callback and in the returned Solution the best trial must be one of the evaluated points with the logged objective value at that point (also re-evaluated through the unwrapped objective), and no logged value may be smaller; objectives with many equal values, multi-iteration batches, several solvers alive and interleaved." + SOLVER_NOTE),
    "C05": dict(level="model_checking", design="4/C05", technique="TLC trace validation of every objective call (global phase and Nelder-Mead refinement) against the box, exact comparisons (AGPTrace.tla)",
                text="Every logged objective call of the global phase and of the local refinement must lie in the box (exact rational comparison per coordinate), the returned point too; with refinement the returned value must equal the objective re-evaluated at the returned point and must not exceed the best global trial; objectives with minima outside the box or on faces; failures injected during the local phase." + SOLVER_NOTE),
    "C06": dict(level="model_checking", design="4/C06", technique="TLC trace validation of full public snapshots of the search information against the specification's record after every call/callback (AGPTrace.tla + EvolventQ.tla)",
                text="A full public snapshot (iteration order, getters, links, GetCount) taken after every DoGlobalIteration call, inside every OnEndIteration callback, after Solve, after refinement, after a contained failure and while other solvers run is compared item by item with the record the specification keeps: strictly increasing x from 0 to 1, trials+2 items, consistent links, delta^N = x - x_left, stored point = evolvent image of x (recomputed from the exact digits), stored value = logged objective value in the trial's own holder." + SOLVER_NOTE),
    "C20": dict(level="model_checking", design="4/C20", technique="TLC trace validation of every evaluated point against the cell-centre grid of the configured density (OnGrid clause, AGPTrace.tla/EvolventQ.tla)",
                text="For evolventDensity 2..12 x dimension 2..5 (random boxes/objectives, solvers created in shuffled density order) every point passed to the objective must be lower + (2j+1)(upper-lower)/2^(m+1) for an integer j in range: a centre of the density-m grid is a centre of no other density, so both a coarser and a finer effective density are rejected." + SOLVER_NOTE),
})

CHECKS.update({
    "C16": dict(level="fault_enumeration", design="4/C16", technique="fault enumeration: every evaluation index of every base run x exception types executed on the real solver, each run validated by TLC against AGPTrace.tla; AGP.tla explores the fault action exhaustively at design level",
                text="For each base run EVERY evaluation index k = 2..T is used as a fault position (exception type rotating over positions, a few positions per base with all eight types incl. KeyboardInterrupt, SystemExit, GeneratorExit and a custom BaseException; Solve entered directly or after DoGlobalIteration batches; with and without a listener). Each faulted run of the real solver is recorded and validated by TLC: Solve returns, reported trial count / best point / best value are those of the k-1 completed trials, and the full public snapshot of the search information equals the specification's record of exactly those trials (ordering, links, lengths, images, values; the failed point absent). AGP.tla checks the same clauses in every state of an exhaustive exploration in which the objective may raise at any evaluation, and termination of Solve under faults." + SOLVER_NOTE),
})

CHECKS.update({
    "C11": dict(level="model_checking", design="4/C11", technique="TLC exhaustive self-composition (AGPPair.tla: arbitrary call pattern vs. reference on every objective over a finite value set) + TLC-enumerated call patterns replayed on the real solver + TLC trace validation and pairwise sequence comparison (SeqCompare.tla)",
                text="AGPPair.tla: a solver driven by an arbitrary mixture of DoGlobalIteration(k) and Solve calls and a reference making single iterations share one nondeterministically chosen objective; in every reachable state the driven solver's trials are the reference's trials of the same index, its state at equal trial counts is the reference's state, a completed Solve has made exactly max(trials before the call, first index at which the stop criterion held) trials, that index is a function of the history alone, and Solve on a finished solver makes no trial. All compositions of up to 7 (quick: 5) iterations into batches followed by 0/1/2 Solve calls are enumerated by TLC from the specification's user actions and replayed on fresh real solvers for several objectives, dimensions and (eps, itersLimit) combinations; long random compositions, late-window patterns (batch ending j trials before the end, results read, then Solve), repeated runs in one process and in fresh interpreters with other hash seeds. Every run is validated by AGPTrace.tla and compared bit for bit with the reference by SeqCompare.tla." + SOLVER_NOTE),
})

CHECKS.update({
    "C12": dict(level="model_checking", design="4/C12", technique="TLC exhaustive exploration of several solvers with an explicit heap of shared-able objects and a call stack for nested calls (AGPMulti.tla, negative control for the pinned defaults) + TLC-enumerated schedules replayed on real solvers + TLC trace validation per solver and pairwise comparison with solo runs",
                text="AGPMulti.tla: S solver records plus an explicit heap for the objects whose sharing can couple instances (Solution.bestTrials lists, value holders), a call stack so that other solvers act exactly where user code runs (between public calls and inside an objective evaluation); with fresh objects per instance every step of one solver leaves every observable of every other solver unchanged (action property Isolated), each solver's own view stays coherent and heap objects are disjoint; with shared default objects (the tree as pinned) TLC refutes Isolated - the negative control. Every schedule TLC enumerates from AGPMultiSched.tla (all interleavings of two solvers' step sequences up to 4+4, schedules with Solve, calls nested in another solver's objective) is replayed on real solvers (created upfront or lazily, separate or shared problem objects; plus three-solver random schedules with batches); after every step of any solver all others are observed; AGPTrace.tla validates each solver against the state the specification holds for it, SeqCompare.tla requires trials and result equal to the solo run and pairwise distinct list/holder objects." + SOLVER_NOTE),
})

CHECKS.update({
    "C13": dict(level="model_checking", design="4/C13", technique="TLC exhaustive check of the notification protocol in AGP.tla + TLC trace validation of recorded notification logs for all 8 callback subsets and every shipped listener/mode (AGPTrace.tla) + SeqCompare.tla against listener-free runs + console report compared by TLC",
                text="AGP.tla checks the notification protocol in every state of its exhaustive exploration (told once before the first trial; the concatenation of OnEndIteration lists is exactly the trial sequence of the completed calls; one OnMethodStop per Solve with the stop status). Bound to the code: listeners derived from the base class overriding each of the 8 subsets of callbacks x batching patterns x N=1..3, and every shipped listener and mode within its documented dimension (console full/custom/result; static 1-D objective function / only points / approximation / interpolation; static N-D lines layers and surface variants; both animation listeners), alone and in combinations, with the recording listener attached before or after them, on random boxes; AGPTrace.tla validates the recorded notification log (NotifBefore, NotifNewPoints, NotifEndIterCount, NotifStopCount, NotifStopFinal, NotifStopStatus), requires every call to return without an internal exception, and compares the console result block parsed from stdout with the Solution (ConsoleReport); SeqCompare.tla requires trial sequence and result to equal the listener-free run." + SOLVER_NOTE),
})

CHECKS.update({
    "C19": dict(level="model_checking", design="4/C19", note="TLC 1.8.0/SANY/CommunityModules; the Q kernel; the recorder (object identities as creation ordinals, results and observations copied through public methods only); preconditions of the property (distinct coordinates strictly between the end items, hint = true right neighbour); histories whose tie resolutions exceed 200 candidate states are abandoned and counted, never reported",
                technique="TLC exhaustive exploration of all short container operation histories (ContainersMC.tla, negative control with wrong hints) + every TLC-generated history replayed on the real classes + TLC trace validation with candidate-state sets (ContainersTrace.tla)",
                text="Containers.tla models SearchDataItem links, the insertion log, DEPQ-backed queues as bags of (item, key) entries with optional maxlen, RefillQueue and the dual-queue lazy invalidation loop exactly as the code performs them, every operation returning the set of outcomes the unspecified tie-break allows. ContainersMC.tla explores every operation history up to depth 3-4 over small alphabets (insert with/without hint, re-assigned characteristics, clear, refill, best-interval requests, lookups; single and dual queue; bounded and unbounded) checking ordering, links, count, bounds and lookup in every state; wrong hints (outside the precondition) are refuted as a negative control. Every history of maximal depth is replayed on the real SearchData/SearchDataDualQueue and validated by ContainersTrace.tla together with long random histories (random doubles, many equal keys, bounded queues) and the stand-alone CharacteristicsQueue: each returned item must be explained by a maximal (dual: maximal still-current) entry in at least one candidate state, and the traversal, links, count, last item and covering-interval lookup observed after every operation must match."),
})

CHECKS.update({
    "C15": dict(level="model_checking", design="4/C15", note="TLC 1.8.0/SANY/CommunityModules; the Q kernel; the recorder (values encoded exactly); evaluation points come from a fixed pool of 4 points per (family, member) so that keys repeat",
                technique="TLC enumeration of all short construct/evaluate histories (ProblemReg.tla) replayed on the real problem classes + TLC trace validation with one memo per (family, member, function, point) shared across histories (ProblemTrace.tla)",
                text="ProblemReg.tla is the sequential specification: the value of member (f, m) at point p is fixed by its first evaluation and every later evaluation of that key - by any instance, after any history of constructions and evaluations - must return it; TLC enumerates all histories up to depth 4 (thorough: 5) over two families x two members x three points, and they are replayed on the real classes for family pairs (all pairs of the cheap families; pairs with several GKLS dimensions and Grishagin instances alive together), evaluating through fresh arrays and through one reused coordinate buffer overwritten in place; long random histories keep up to 14 instances of all eleven family variants alive, incl. the constraint functions of StronginC3. ProblemTrace.tla keeps one memo for all histories of a file and requires bit-equal values, an unmodified point, the supplied holder returned with the value in it, and no exception."),
    "C18": dict(level="other", design="4/C18", note="the derivative bounds hold for the formulas built from the shipped coefficient tables (Hill: trigonometric sum; Shekel: sum of reciprocals of quadratics) and are derived by TLC in exact arithmetic; the code is tied to the formula through the observed values, each allowed a rounding error of 1e-11; the certificate search (Python) is untrusted - it can only cause 'undecided'; TLC 1.8.0, CommunityModules, Q kernel",
                technique="TLC check of metadata records of every family member (ProblemTrace.tla) + TLC-checked certificates per table row (Cert1D.tla: Taylor bounds from coefficient-derived derivative bounds, convexity / end-point monotonicity + covering, mean-value witness) with refutation of deliberately corrupted rows",
                text="Metadata: every member of every family (Hill and Shekel 0..999, Shekel4 1..3, Grishagin 1..100, GKLS 2..5 x 1..100, Rastrigin and XSquared 1..8, StronginC3) is constructed in shuffled order and TLC checks dimension = lengths of names and bounds, lower < upper, one objective, known optimum inside the box. Tables: for each row of the 2 x 1000 published (minimum, maximum, Lipschitz constant) tables a certificate is built from values observed through Problem.Calculate (the object living among sibling instances) and checked by Cert1D.tla in exact rational arithmetic with bounds on the first four derivatives derived from the shipped coefficient tables: the global minimum (maximum) lies within 1e-4 of the tabulated value, every global minimiser lies within 1e-4 of the range of the tabulated location (strict convexity or end-point monotonicity on a neighbourhood, certified sign change of f', and a covering whose cell-wise lower bounds exclude everything else), and the constant is within 0.1% of max |f'| (mean-value witness below, cell-wise upper bound above). A clause is violated only if a refutation certificate checks (an observed value outside the tolerance, f' of one certified sign around the tabulated location, a witness slope above / an upper bound below the tabulated constant); rows neither accepted nor refuted are counted as undecided. Ten deliberately corrupted rows per run must be refuted (binding demonstration)."),
})

CHECKS.update({
    "C14": dict(level="other", design="4/C14", note="parameters are read from the public attributes GKLS.function.GKLS_minima; the reference golden/gkls.json was recorded from the pinned tree (no fix: commit touches iOpt/problems) and is cross-checked by the structural clauses; square roots enclosed to 2^-72, comparisons of sqrt-based quantities carry 1e-9 slack; TLC 1.8.0, CommunityModules, Q kernel",
                technique="TLC evaluation of the GKLS structure predicates and of the D-type case analysis (GKLSSpec.tla) on the parameters and observed values of all 400 functions + continuity pairs + committed reference values",
                text="For every (dimension, number) - quick: 12 numbers per dimension plus (3,1), thorough: all 400 - the generated object's parameters are read from its public attributes while all objects of the run are alive, and GKLSSpec.tla checks in exact rational arithmetic: 10 minimisers inside the box; pairwise non-overlapping attraction balls (the paraboloid vertex's ball included); the global minimiser at the class distance from the vertex with the class radius and value -1, every other minimum strictly higher, the declared optimum equal to it; the value formula of every local minimum. Every observed value (the minimisers themselves, points inside every ball along axes / towards the vertex / random directions at several radii, far-field points, box corners) is recomputed by the specification's own classification and three-way case analysis (paraboloid outside the balls, exact prescribed value at a minimiser, the cubic inside ball i). Continuity is required on pairs straddling every ball boundary. Parameters and 50 values per function must equal the committed reference bit for bit. Two corrupted records per run must be rejected (binding demonstration)."),
})

CHECKS.update({
    "C10": dict(level="other", design="4/C10", note="derivative bounds hold for the formulas built from the shipped coefficient tables and are derived by TLC in exact arithmetic; the code is tied to the formulas through observed values (rounding allowances 1e-11 / 1e-10); the certificate searches (Python) are untrusted - they can only cause 'undecided'; StronginC3 has no acceptance certificate (refutation sampling only) and stays undecided; TLC 1.8.0, CommunityModules, Q kernel",
                technique="TLC-checked certificates per instance: Cert1D.tla (Hill, Shekel, 1-D Rastrigin), GKLSSpec.tla (global minimum decided from the generated parameters), Bench.tla (XSquared exact, Rastrigin separability, Shekel4 branch-and-bound tree with exact interval bounds), BoxCert2D.tla (Grishagin quadtrees with second-order bounds of the trigonometric polynomial f^2)",
                text="Each instance is decided by a certificate that TLC checks in exact rational arithmetic; clauses: the objective at the declared point is within 1e-4 of the declared value, no point of the box is lower than f* - 2e-3 max(1,|f*|), and every global minimiser lies within 0.5% of the box side of the declared point. Hill and Shekel (all 2000 members, in both tiers): Cert1D.tla with the optimum the problem object declares (convexity or end-point monotonicity near the declared point, certified sign change, covering with cell-wise lower bounds from Taylor's theorem and coefficient-derived derivative bounds). GKLS (quick 48, thorough all 400): outside the balls f is the non-negative paraboloid; inside ball i, f - f_i = n^2 (A n + B) with A n + B affine in the radius and the cosine, so four rational inequalities per basin (checked from the generated parameters) give f >= f_i >= -1 with equality only at the declared global minimiser; Calculate is tied to the case analysis point-wise. XSquared and Rastrigin in dimensions 1..8: exact sum of squares; separability on observed values plus the Cert1D certificate of the one-dimensional Rastrigin function. Shekel4 1..3: a 16-ary branch-and-bound tree tiles [0,10]^4 by construction and every leaf's exact interval lower bound exceeds the value at the declared point unless the leaf lies within the 0.5% neighbourhood. Grishagin (quick 1, thorough all 100): a quadtree on which the upper bound of f^2 = d1^2 + d2^2 from observed values, a finite-difference gradient and a coefficient-derived Hessian bound is below f(declared)^2 except in the 0.5% neighbourhood. StronginC3: only refutation sampling of feasible points (the constrained minimum lies on a constraint boundary) - counted as undecided. Instances neither accepted nor refuted are reported as undecided in the evidence; corrupted declarations must be refuted (binding demonstration)."),
})

CHECKS.update({
    "C01": dict(level="model_checking", design="4/C01", technique="TLC exhaustive exploration of one Solve against an adversarial L-Lipschitz objective with the McShane envelope as worst case (AGPLip.tla, N=1 exact) + TLC trace validation of real runs on objectives with known Lipschitz constant and minimum (clause Certified in AGPTrace.tla)",
                text="AGPLip.tla (N=1, exact rationals): one Solve of the solver model against every choice of objective values from a finite set that stays consistent with some L-Lipschitz function; at every accuracy stop with r M >= 2 L (M the final estimate - the literal reading) the best value exceeds the minimum of the McShane envelope of the observed values - the smallest global minimum that ANY L-Lipschitz objective with these values can have - by less than (r M / 2) eps, for several (r, eps, L, value set) configurations incl. flat ones with 2 L <= r; a vacuity guard requires a reachable accuracy stop with the premise. Bound to the code for N = 1..5: the real solver is run on minima of cones given in box-normalised coordinates (Lipschitz constant and global minimum known analytically), in flat (K_N L <= r), premise-by-observed-slopes, steep and needle (wide shallow cone + narrow deeper cone several bounds deep) configurations; AGPTrace.tla recomputes M from the recorded history, tests the premise with an upper bound of K_N and requires best - f_min < (r M / 2) eps + L 2^-m (sqrt(N+3) + sqrt(N)/2) at every accuracy stop whose premise holds (clause Certified); every trial of these runs is also validated against the decision rule. For N >= 2 the exhaustive part is N = 1 only; the N >= 2 runs are sampled objectives." + SOLVER_NOTE),
})

NOT_YET = {
}

NA = [
]


def main():
    props = [json.loads(l) for l in open(os.path.join(V, "properties.jsonl"))]
    checks = []
    for p in props:
        pid = p["id"]
        if pid not in CHECKS:
            continue
        c = CHECKS[pid]
        checks.append({
            "property_id": pid,
            "quick_cmd": "./check %s --tier quick" % pid,
            "thorough_cmd": "./check %s --tier thorough" % pid,
            "evidence_file": "/verif/evidence/%s.json" % pid,
            "replay_cmd_template": "./check %s --replay {path}" % pid,
            "engine": "tlc",
            "level_claimed": {"category": c["level"], "text": c["text"], "design_ref": "DESIGN.md section " + c["design"]},
            "level_note": c.get("note", TRUST),
            "technique": c["technique"],
        })
    na = list(NA)
    for p in props:
        if p["id"] not in CHECKS and not any(x["property_id"] == p["id"] for x in na):
            na.append({"property_id": p["id"], "reason": NOT_YET.get(p["id"], "check not built yet in this round (planned in DESIGN.md section 4); not claimed until its specification is bound to the code")})
    man = {
        "version": 1,
        "setup_cmd": "./setup.sh",
        "hooks": {
            "guard": "IOPT_VERIF",
            "enable": "no source hooks: observation is black-box through the public API (recording Problem wrapper, recording Listener, driver logs of public calls); the guard name is reserved",
            "baseline_off_cmd": "cd /repo && /venv/bin/python -m pytest -ra -q -p no:cacheprovider --timeout=900 --continue-on-collection-errors",
            "source_commits": [],
            "add_only": True,
        },
        "engines": [{"name": "tlc", "path": "/verif/harness/tlc.py", "serves_properties": sorted(CHECKS),
                     "kind_free_text": "TLC 1.8 model checker run on the TLA+ modules in /verif/spec (exhaustive design checking, scenario generation, trace validation), with exact rational arithmetic through the module override in /verif/kernel"}],
        "checks": checks,
        "not_applicable": na,
        "notes": "All checks: ./check <ID> [--tier quick|thorough]; exit 0 held / 1 VIOLATION / 2 machinery failure. Randomness only from VERIF_SEED. Code under test is imported from /repo (working tree). Fixed defects and known findings: /verif/known_findings.json.",
    }
    with open(os.path.join(V, "MANIFEST.json"), "w") as f:
        json.dump(man, f, indent=1)
        f.write("\n")
    print("MANIFEST: %d checks, %d not claimed" % (len(checks), len(na)))


if __name__ == "__main__":
    main()
