#!/bin/bash
# tools/seeded.sh <seeded-id> <property> [tier]   — run ./check <property> against /repo HEAD + seeded patch,
# in a throw-away worktree outside /repo and /verif (removed afterwards).  Prints DETECTED / MISSED.
set -u
SID=$1; PID=$2; TIER=${3:-quick}
V=/verif
W=$(mktemp -d /tmp/ioptverif-seed-XXXXXX)
rmdir $W
git -C /repo worktree add -q --detach $W HEAD || exit 2
if ! git -C $W apply $V/seeded/$SID/patch.diff; then echo "$SID $PID APPLY-FAIL"; git -C /repo worktree remove --force $W; exit 2; fi
OUT=$(IOPT_VERIF_REPO=$W IOPT_VERIF_EVIDENCE_DIR=$W/.ev VERIF_TIER=$TIER $V/check $PID 2>&1); rc=$?
git -C /repo worktree remove --force $W
if [ $rc -eq 1 ] && echo "$OUT" | grep -q "^VIOLATION property=$PID"; then echo "$SID $PID DETECTED: $(echo "$OUT" | grep -A1 '^VIOLATION' | sed -n 2p | cut -c1-160)";
elif [ $rc -eq 0 ]; then echo "$SID $PID MISSED";
else echo "$SID $PID rc=$rc"; echo "$OUT" | tail -5; fi
