#!/bin/bash
# tools/ingest_free.sh <dir with patch.diff demo.py meta.json> <suffix>  - like ingest_mutant.sh, property taken from meta.json
set -u
OUT=$1; SFX=$2; V=/verif
P=$(python3 -c "import json;print(json.load(open('$OUT/meta.json'))['breaks_property'])")
W=$(mktemp -d /tmp/ioptverif-ingest-XXXXXX); rmdir $W
git -C /repo worktree add -q --detach $W HEAD || exit 2
export PYTHONPATH=$W MPLBACKEND=Agg PYTHONWARNINGS=ignore PYTHONDONTWRITEBYTECODE=1
(cd $W && timeout 900 /venv/bin/python $OUT/demo.py > /tmp/ingest-clean.log 2>&1); c0=$?
git -C $W apply $OUT/patch.diff; ap=$?
(cd $W && timeout 1200 /venv/bin/python -m pytest -q -p no:cacheprovider --timeout=900 -x > /tmp/ingest-tests.log 2>&1); t=$?
(cd $W && timeout 900 /venv/bin/python $OUT/demo.py > /tmp/ingest-mut.log 2>&1); c1=$?
git -C /repo worktree remove --force $W
echo "$P-$SFX demo_clean=$c0 apply=$ap tests=$t demo_mut=$c1 $(tail -1 /tmp/ingest-tests.log)"
if [ $c0 -eq 0 ] && [ $ap -eq 0 ] && [ $t -eq 0 ] && [ $c1 -ne 0 ]; then
  mkdir -p $V/seeded/$P-$SFX; cp $OUT/patch.diff $OUT/demo.py $V/seeded/$P-$SFX/
  python3 - <<EOF
import json
m=json.load(open("$OUT/meta.json"))
m["id"]="$P-$SFX"; m["origin"]="independent sub-agent given only the property texts (free choice of property) and a scratch worktree"
m["confirmed"]={"how":"fresh scratch worktree at /repo HEAD: demo on clean tree; git apply patch.diff; full pytest suite; demo again; worktree removed","demo_exit_clean_tree":$c0,"pytest_exit_with_patch":$t,"demo_exit_with_patch":$c1,"log":"$(tail -1 /tmp/ingest-tests.log)"}
json.dump(m,open("$V/seeded/$P-$SFX/meta.json","w"),indent=1)
EOF
  echo "stored seeded/$P-$SFX"
else echo "NOT CONFIRMED"; fi
